"""C11: writing a dataset and reading it back returns the same spectra (round-trip monitor).

Every case writes a generated dataset with the real writer into a private temp dir (outside /repo
and /verif, removed after the case), reads it with the matching real reader and compares times,
positions, coordinates and densities within the numeric resolution of the format."""
import os
import shutil
import tempfile

import numpy as np

from vf import gen
from vf.cmp import close, circ_diff

FORMATS = ["swan", "swan", "swan_grid", "octopus", "json", "json_grid", "netcdf", "netcdf_grid", "ww3", "funwave"]


def run(ctx):
    import xarray as xr
    import wavespectra

    tmp = tempfile.mkdtemp(prefix="vf-c11-")
    try:
        for i, rng in ctx.cases("roundtrip", ctx.n(700, 16000)):
            fmt = FORMATS[i % len(FORMATS)]
            if rng.random() < 0.5:
                # a path an earlier dataset of this format was written to and read from (file replaced in place)
                d = os.path.join(tmp, "reused-" + fmt)
                shutil.rmtree(d, ignore_errors=True)
                os.mkdir(d)
                ctx.rec.note("path_reused")
            else:
                d = tempfile.mkdtemp(dir=tmp)
            try:
                one(ctx, rng, xr, wavespectra, fmt, d)
            finally:
                shutil.rmtree(d, ignore_errors=True)
    finally:
        shutil.rmtree(tmp, ignore_errors=True)


def make_ds(rng, xr, fmt):
    grid = fmt.endswith("_grid")
    nf = int(rng.choice([3, 5, 9, 14]))
    fdec = 5
    f = np.unique(np.round(np.sort(rng.uniform(0.03, 0.6, nf)), fdec))
    if f.size < 3 or np.min(np.diff(f)) < 2e-4:
        f = np.round(np.linspace(0.04, 0.4, nf), fdec)
    nd = int(rng.choice([4, 8, 12, 24, 36, 16, 32, 64, 48]))        # incl. 22.5, 11.25, 5.625 and 7.5 degree bins
    dd = 360.0 / nd
    th = float(rng.choice([0.0, dd / 2, 0.125, dd / 4 if nd != 64 else 0.0])) + dd * np.arange(nd)       # all exact at four decimals
    many_dirs = fmt.replace("_grid", "") in ("swan", "json", "netcdf") and rng.random() < 0.05
    if many_dirs:
        # fine directional grids (2, 1.5 and 1 degree bins): several hundred values per frequency row
        nd = int(rng.choice([180, 240, 360]))
        dd = 360.0 / nd
        th = float(rng.choice([0.0, dd / 2])) + dd * np.arange(nd)
        nf = 3
        f = f[:3]
    if fmt == "funwave":
        nd = int(rng.choice([4, 8, 12, 24, 36, 16]))        # Funwave writes directions with three decimals
        dd = 360.0 / nd
        th = float(rng.choice([0.0, dd / 2, 0.125])) + dd * np.arange(nd)
    if fmt == "octopus":
        nd = int(rng.choice([4, 8, 12, 24, 36]))
        dd = 360.0 / nd
        th = float(rng.choice([0.0, 5.0])) + dd * np.arange(nd)   # whole degrees
        if nd >= 8 and rng.random() < 0.25:
            # a sector of the circle only (a directionally clipped spectrum, a sector instrument): same spacing, fewer bins
            k0_ = int(rng.integers(0, nd // 2))
            th = th[k0_: k0_ + int(rng.integers(3, nd // 2 + 1))]
            nd = len(th)
    order = str(rng.choice(["sorted", "rolled", "reversed"]))
    if order == "rolled":
        th = np.roll(th, int(rng.integers(1, nd)))
    elif order == "reversed":
        th = th[::-1].copy()
    nt = int(rng.integers(1, 7)) if not many_dirs else int(rng.integers(1, 3))
    t0 = np.datetime64("2019-06-01T00:00:00") + np.timedelta64(int(rng.integers(0, 10 ** 6)) * (60 if fmt == "octopus" else 1), "s")
    if rng.random() < 0.3:
        # a time axis that crosses a month or year boundary inside the file
        t0 = np.datetime64(str(rng.choice(["2020-12-31T22:00:00", "2021-02-28T23:00:00", "2020-02-29T21:00:00", "2019-06-30T20:00:00"])))
    step = int(rng.choice([600, 3600, 10800])) if fmt == "octopus" else int(rng.choice([1, 47, 600, 3600]))
    times = (t0 + np.arange(nt) * np.timedelta64(step, "s")).astype("datetime64[ns]")
    if grid:
        nlat, nlon = int(rng.integers(1, 4)), int(rng.integers(1, 4))
        if nlat == nlon and nlat > 1 and rng.random() < 0.7:
            nlon += 1          # unequal sizes expose transposed positions
        lead, shape = ["time", "lat", "lon"], (nt, nlat, nlon)
    else:
        ns = 1 if fmt in ("octopus",) else int(rng.integers(1, 6))
        lead, shape = ["time", "site"], (nt, ns)
    A = np.zeros(shape + (f.size, nd))
    kinds = np.empty(shape, dtype=object)
    for idx in np.ndindex(*shape):
        kind = str(rng.choice(["normal", "normal", "normal", "tiny", "huge", "zero", "nan"], p=[.4, .2, .1, .08, .08, .08, .06]))
        if fmt in ("funwave",):
            kind = "normal"
        E = gen.spectrum(rng, f, th, "multimodal")[0]
        E = E / max(E.max(), 1e-300)
        amp = {"normal": 10 ** rng.uniform(-3, 1), "tiny": 10 ** rng.uniform(-8, -5), "huge": 10 ** rng.uniform(2, 3)}.get(kind, 1.0)
        E = E * amp
        if kind == "zero":
            E[:] = 0
        if kind == "nan":
            E[:] = np.nan
        A[idx] = E
        kinds[idx] = kind
    coords = {"time": times, "freq": f, "dir": th}
    if grid:
        coords["lat"] = np.round(np.sort(rng.uniform(-60, 60, shape[1])), 4)
        coords["lon"] = np.round(np.sort(rng.uniform(0, 359, shape[2])), 4)
        if rng.random() < 0.4:
            # -180..180 convention; most such grids straddle Greenwich (negative and positive longitudes)
            coords["lon"] = np.round(np.sort(rng.uniform(-20, 20, shape[2]) if rng.random() < 0.6 else rng.uniform(-179, 179, shape[2])), 4)
    else:
        coords["site"] = np.arange(shape[1]) if rng.random() < 0.5 else np.arange(1, shape[1] + 1)
        if fmt in ("ww3", "netcdf") and rng.random() < 0.4:
            # station identifiers as they come: arbitrary numbers or names
            coords["site"] = (np.sort(rng.choice(np.arange(100, 99999), shape[1], replace=False)) if rng.random() < 0.5
                              else np.array(["buoy-%s" % "".join(rng.choice(list("ABCDEFGH"), int(rng.integers(1, 5)))) + str(k_) for k_ in range(shape[1])], dtype=object))
    ds = xr.DataArray(A, dims=lead + ["freq", "dir"], coords=coords, name="efth").to_dataset()
    if grid and rng.random() < 0.4:
        # the same labelled grid held in another dimension order (lon before lat, time not first)
        od = [str(x_) for x_ in rng.permutation(lead)] + ["freq", "dir"]
        ds = ds.transpose(*od)
        ds["efth"] = (tuple(od), np.ascontiguousarray(ds["efth"].values))
    if not grid and rng.random() < 0.3:
        # station datasets held in any dimension order, the spectral dimensions included (dir before freq, site first)
        od = [str(x_) for x_ in rng.permutation(["time", "site", "freq", "dir"])]
        ds = ds.transpose(*od)
        ds["efth"] = (tuple(od), np.ascontiguousarray(ds["efth"].values))
    if nt > 1 and fmt in ("swan", "swan_grid", "json", "json_grid", "netcdf", "netcdf_grid") and rng.random() < 0.12:
        # a valid but not chronological time axis (segments concatenated newest first, a late record appended): every spectrum
        # must come back under the time stamp it was written with
        perm = rng.permutation(nt)
        if np.array_equal(perm, np.arange(nt)):
            perm = perm[::-1]
        ds = ds.isel(time=perm)
        ds["efth"] = (ds["efth"].dims, np.ascontiguousarray(ds["efth"].values))
        kinds = kinds[perm]
        order += "+times-not-chronological"
    if not grid:
        dec = 7 if fmt in ("netcdf", "json") else 5           # formats that store positions as doubles keep every digit
        lon = np.round(rng.uniform(0, 359, shape[1]) if rng.random() < 0.6 else rng.uniform(-179, 179, shape[1]), dec)
        lat = np.round(rng.uniform(-70, 70, shape[1]), dec)
        ds["lon"] = (("site",), lon)
        ds["lat"] = (("site",), lat)
    return ds, kinds, order


def positions(ds):
    """[(label, selector dict, lon, lat)] of a dataset in either layout."""
    out = []
    if "site" in ds["efth"].dims:
        lon = np.asarray(ds["lon"].values, dtype="float64").reshape(-1) if "lon" in ds else np.zeros(ds.sizes["site"])
        lat = np.asarray(ds["lat"].values, dtype="float64").reshape(-1) if "lat" in ds else np.zeros(ds.sizes["site"])
        for i in range(ds.sizes["site"]):
            out.append((i, {"site": i}, float(lon[i]), float(lat[i])))
    else:
        for i in range(ds.sizes["lat"]):
            for j in range(ds.sizes["lon"]):
                out.append(((i, j), {"lat": i, "lon": j}, float(ds["lon"].values[j]), float(ds["lat"].values[i])))
    return out


def one(ctx, rng, xr, ws, fmt, d):
    rec = ctx.rec
    ds, kinds, order = make_ds(rng, xr, fmt)
    base = fmt.replace("_grid", "")
    grid = fmt.endswith("_grid")
    nt = ds.sizes["time"]
    opts = {}
    key0 = "%s|%s|dirs=%s|nt=%d" % (fmt, "grid%dx%d" % (ds.sizes["lat"], ds.sizes["lon"]) if grid else "sites%d" % ds.sizes["site"], order, min(nt, 3))
    try:
        if base == "swan":
            gz = rng.random() < 0.3
            path = os.path.join(d, "out.spec" + (".gz" if gz else ""))
            opts = {"ntime": None if rng.random() < 0.5 else int(rng.integers(1, nt + 1))}
            ro = {"dirorder": False} if rng.random() < 0.25 else {}         # documented reader option: directions as in the file
            wds, wkw = ds, dict(opts)
            if not grid and rng.random() < 0.15:
                # positions handed to the writer as arguments (documented for datasets that carry no lon / lat variables)
                wds = ds.drop_vars(["lon", "lat"])
                wkw.update(lons=np.array(ds["lon"].values), lats=np.array(ds["lat"].values))
                rec.note("swan_positions_given_as_arguments")
            again = lambda: (wds.spec.to_swan(path, **wkw), ws.read_swan(path, **ro))[1]
            back = again()
            if ro:
                rec.note("swan_read_with_dirorder_false")
            key0 += "|gz=%s|ntime=%s" % (gz, "all" if opts["ntime"] is None else ("lt" if opts["ntime"] < nt else "eq"))
        elif base == "octopus":
            gz = rng.random() < 0.3
            path = os.path.join(d, "out.oct" + (".gz" if gz else ""))
            opts = {"ntime": None if rng.random() < 0.5 else int(rng.integers(1, nt + 1))}
            fq = ds.freq.values
            # the sea/swell cutoff of the parameter block must lie inside the frequency range
            wds, wkw = ds, dict(opts)
            if rng.random() < 0.2:
                # positions handed to the writer as arguments (documented for datasets that carry no lon / lat variables)
                wds = ds.drop_vars(["lon", "lat"])
                wkw.update(lons=np.array(ds["lon"].values), lats=np.array(ds["lat"].values))
                rec.note("octopus_positions_given_as_arguments")
            again = lambda: (wds.spec.to_octopus(path, fcut=float(fq[0] + 0.5 * (fq[-1] - fq[0])), **wkw), ws.read_octopus(path))[1]
            back = again()
            key0 += "|gz=%s|ntime=%s" % (gz, "all" if opts["ntime"] is None else ("lt" if opts["ntime"] < nt else "eq"))
        elif base == "json":
            path = os.path.join(d, "out.json")
            jkw = {}
            if rng.random() < 0.25:
                # documented option of writer and reader: another (whole-second) way of spelling the time stamps
                jkw = {"date_format": str(rng.choice(["%Y%m%dT%H%M%S", "%d/%m/%Y %H:%M:%S", "%Y-%j %H:%M:%S"]))}
                rec.note("json_with_other_date_format")
            again = lambda: (ds.spec.to_json(path, **jkw), ws.read_json(path, **jkw))[1]
            back = again()
        elif base == "netcdf":
            path = os.path.join(d, "out.nc")
            opts = {"packed": bool(rng.random() < 0.6)}
            ds.spec.to_netcdf(path, ncformat="NETCDF3_64BIT", compress=False, **opts)
            back = ws.read_wavespectra(path).load()
            back.close()
            key0 += "|packed=%s" % opts["packed"]
        elif base == "ww3":
            path = os.path.join(d, "out_ww3.nc")
            ds.spec.to_ww3(path)
            back = ws.read_ww3(path).load()
            back.close()
        else:
            # one spectrum, unclipped
            sel = {k: int(rng.integers(ds.sizes[k])) for k in ("time", "site")}
            ds = ds.isel(sel, drop=True)
            clip = False
            if rng.random() < 0.2:
                ds = ds.spec.oned().to_dataset(name="efth")
            elif rng.random() < 0.35:
                # a spectrum that lies entirely in the half plane Funwave keeps (nautical 180..360, edges included): the
                # default clip=True has nothing to clip and must write every bin
                thv = ds.dir.values
                keep = [float(v) for v in thv if 180.0 <= v <= 360.0]
                if len(keep) >= 2 and 180.0 in keep:
                    ds = ds.sel(dir=keep)
                    clip = True
                    key0 += "|clip-nothing-to-clip"
            path = os.path.join(d, "out.txt")
            ds.spec.to_funwave(path, clip=clip) if not clip or rng.random() < 0.5 else ds.spec.to_funwave(path)
            back = ws.read_funwave(path)
            if rng.random() < 0.3:
                rec.note("engine:funwave")
                funwave_cmp(rec, key0 + "|engine=funwave", ds, xr.open_dataset(path, engine="funwave").load())
            return funwave_cmp(rec, key0, ds, back)
    except Exception as e:
        mech = "roundtrip-raises:" + base
        if base == "funwave" and isinstance(e, TypeError) and "format string" in str(e) and "dir" in ds["efth"].dims \
                and list(ds["efth"].dims).index("dir") < list(ds["efth"].dims).index("freq"):
            mech = "funwave-writer-assumes-freq-before-dir"      # defect 37 (fixed in repo 13bdf0a)
        if base == "netcdf" and isinstance(e, KeyError) and opts.get("packed"):
            mech = "netcdf-packed-without-compress-keyerror"
        rec.bad("roundtrip_" + base, key0, {"raised": repr(e)[:400], "options": opts, "sizes": dict(ds.sizes)}, mech)
        return
    compare(rec, base, key0, ds, back, kinds, opts)
    if rng.random() < 0.3 and not (base == "json" and locals().get("jkw")):      # (the json engine takes no date_format)
        # the registered xarray engine of the format opens the same file: held against the written dataset like the reader
        eng = {"swan": "swan", "octopus": "octopus", "json": "json", "netcdf": str(rng.choice(["wavespectra", "netcdf"])), "ww3": "ww3"}[base]
        try:
            back3 = xr.open_dataset(path, engine=eng).load()
            back3.close()
        except Exception as e:
            rec.bad("roundtrip_" + base, key0 + "|engine=" + eng, {"raised": repr(e)[:400]}, "backend-entrypoint-raises:" + eng)
            return
        rec.note("engine:" + eng)
        compare(rec, base, key0 + "|engine=" + eng, ds, back3, kinds, opts)
    if base in ("ww3", "netcdf") and "site" in ds.dims:
        # these formats store the station identifiers: they come back as written (numbers as numbers, names as names)
        lw, lr = [str(v) for v in ds["site"].values], [str(v) for v in (back["site"].values if "site" in back.coords else [])]
        (rec.ok("site_labels", base + "|" + ds["site"].dtype.kind) if lw == lr else
         rec.bad("site_labels", base + "|" + ds["site"].dtype.kind, {"written": lw, "read": lr}, "roundtrip-site-labels-differ:" + base))
    if base in ("swan", "octopus", "json") and rng.random() < 0.35:
        # the same Dataset object written again after its spectra were edited in place: the file holds the edited ones
        how = str(rng.choice(["setitem", "values"]))
        try:
            if how == "setitem":
                ds["efth"][dict(time=0)] = ds["efth"].isel(time=0) * 0.25
                if ds.sizes["time"] > 1:
                    ds["efth"][dict(time=slice(1, None))] = ds["efth"].isel(time=slice(1, None)) * 4.0
            else:
                ds["efth"].values[...] = ds["efth"].values * 0.5
            back2 = again()
        except Exception as e:
            rec.bad("roundtrip_" + base, key0 + "|rewrite", {"raised": repr(e)[:400]}, "roundtrip-raises:" + base)
            return
        rec.note("rewritten_after_inplace_edit:" + base)
        compare(rec, base, key0 + "|rewrite-after-inplace-%s" % how, ds, back2, kinds, opts)


def tol_for(base, E, f, th, packed):
    """Absolute tolerance per spectrum (array broadcastable to E) from the format's quantum."""
    from vf.oracle import integrals as I
    if base == "swan":
        m = np.nanmax(E) if np.isfinite(E).any() else 0.0
        return 0.5 * m / 9998.0 * 1.0001 + 1e-8 * m
    if base == "octopus":
        df = I.df_ref(f)[:, None]
        dd = I.circ_dd(th)
        return 5.1e-8 / (df * dd) + 1e-9 * np.abs(np.nan_to_num(E))
    if base == "netcdf" and packed:
        return 0.5e-5 * 1.0001 + 1e-12
    return 4 * np.finfo("float64").eps * np.abs(np.nan_to_num(E)) + 0.0


def compare(rec, base, key, ds, back, kinds, opts):
    f = ds.freq.values.astype("float64")
    th = ds.dir.values.astype("float64")
    op = "roundtrip_" + base
    if "efth" not in back:
        rec.bad(op, key, {"vars": list(back.variables)}, "roundtrip-no-efth")
        return
    # ---- times ---------------------------------------------------------------------------------
    tb = np.asarray(back["time"].values).astype("datetime64[us]") if "time" in back.coords or "time" in back else None
    tw = ds.time.values.astype("datetime64[us]")
    if base == "octopus":
        tw = tw.astype("datetime64[m]").astype("datetime64[us]")
    # whole-second stamps must come back to well within a second (float day encodings round-trip to ~us)
    tmap = None
    if tb is not None and tb.shape == tw.shape and len(tw) > 1 and np.any(np.diff(tw.astype("int64")) < 0):
        # not chronological as written: the reader may return the records in file order or sorted; each record is identified
        # by its (unique) stamp
        tmap = [int(np.argmin(np.abs((tb - t_).astype("int64")))) for t_ in tw]
        if sorted(tmap) == list(range(len(tw))):
            tb = tb[tmap]
            rec.note("time_axis_not_chronological")
        else:
            tmap = None
    if tb is None or tb.shape != tw.shape or np.max(np.abs((tb - tw).astype("int64"))) > 1000:
        mech = "roundtrip-times-differ:" + base
        if base == "octopus" and opts.get("ntime") and opts["ntime"] < ds.sizes["time"]:
            mech = "octopus-chunked-writing-loses-records"
        rec.bad(op, key, {"times_written": tw.astype(str), "times_read": None if tb is None else tb.astype(str), "options": opts}, mech)
        return
    # ---- frequencies / directions -----------------------------------------------------------------
    fb = np.asarray(back["freq"].values, dtype="float64")
    db = np.asarray(back["dir"].values, dtype="float64")
    if fb.shape != f.shape or np.max(np.abs(fb - f)) > {"swan": 5.1e-6, "octopus": 5.1e-8}.get(base, 1e-12):
        rec.bad(op, key, {"freq_written": f, "freq_read": fb}, "roundtrip-frequencies-differ:" + base)
        return
    if db.shape != th.shape or sorted(np.round(db % 360, 3)) != sorted(np.round(th % 360, 3)):
        rec.bad(op, key, {"dir_written": th, "dir_read": db}, "roundtrip-directions-differ:" + base)
        return
    didx = [int(np.argmin(circ_diff(db, t))) for t in th]          # written direction -> read column
    # ---- positions ----------------------------------------------------------------------------------
    pw, pb = positions(ds), positions(back)
    if len(pw) != len(pb):
        rec.bad(op, key, {"positions_written": len(pw), "positions_read": len(pb)}, "roundtrip-number-of-positions:" + base)
        return
    grid_w = "lat" in ds["efth"].dims
    lead_b = [dname for dname in back["efth"].dims if dname not in ("freq", "dir")]
    Eb = back["efth"].transpose(*lead_b, "freq", "dir")
    ok_all = True
    for n, (lab, sel, lon, lat) in enumerate(pw):
        # the spectrum must come back *at the position it was written from*
        if grid_w or "lat" in back["efth"].dims:
            cand = [q for q in pb if abs(q[2] - lon) <= 1.1e-6 and abs(q[3] - lat) <= 1.1e-6]
            if len(cand) != 1:
                rec.bad(op, key, {"position": [lon, lat], "read_positions": [(q[2], q[3]) for q in pb][:12]}, "roundtrip-position-missing:" + base)
                return
            q = cand[0]
        else:
            q = pb[n]
            if base != "ww3" or True:
                ptol = 1e-9 if base in ("netcdf", "json") else 1.1e-5
                if abs(q[2] - lon) > ptol or abs(q[3] - lat) > ptol:
                    rec.bad(op, key, {"site_index": n, "lonlat_written": [lon, lat], "lonlat_read": [q[2], q[3]]}, "roundtrip-lonlat-differ:" + base)
                    return
        Ew = ds["efth"].isel(sel).transpose("time", "freq", "dir").values.astype("float64")
        Er = Eb.isel(q[1]).transpose("time", "freq", "dir").values.astype("float64")[:, :, didx]
        if tmap is not None:
            Er = Er[tmap]
        for it in range(Ew.shape[0]):
            kind = kinds[(it,) + (lab if isinstance(lab, tuple) else (lab,))]
            ew, er = Ew[it], Er[it]
            if kind == "nan":
                if base in ("swan", "json", "netcdf", "ww3"):
                    good = np.isnan(er).all()
                    why = "missing spectrum did not come back missing"
                else:
                    rec.skip(op, "format has no way to express a missing spectrum")
                    continue
            else:
                tol = tol_for(base, ew, f, th, opts.get("packed"))
                good = (not np.isnan(er).any()) and bool(np.all(np.abs(er - ew) <= tol))
                why = "densities differ beyond the format resolution"
                if kind == "zero":
                    good = good and not er.any()
            if good:
                rec.ok(op, key + "|" + kind)
            else:
                ok_all = False
                mech = "roundtrip-values:" + base
                if base == "swan" and grid_w and any(np.allclose(np.nan_to_num(er), np.nan_to_num(ds["efth"].isel(s2).isel(time=it).transpose("freq", "dir").values[:, :]), atol=float(np.max(tol)) if np.ndim(tol) else float(tol) + 1e-12)
                                                   for (_, s2, _, _) in pw if s2 != sel):
                    mech = "swan-grid-positions-permuted"
                if base == "octopus" and kind == "tiny":
                    mech = "roundtrip-values:octopus"
                # finding 40: the bin width is taken from the first two stored labels; on a sector (no circle to fold the step
                # onto) stored out of order that is not the spacing, and everything written / read through it is scaled
                d_sorted = np.sort(th % 360.0)
                true_dd = float(np.min(np.diff(d_sorted))) if len(th) > 1 else 1.0
                step01 = abs(float(th[1]) - float(th[0])) % 360.0 if len(th) > 1 else 1.0
                step01 = min(step01, 360.0 - step01)
                sector = len(th) > 1 and abs(true_dd * len(th) - 360.0) > 1e-6
                if sector and abs(step01 - true_dd) > 1e-9 and kind != "nan" and np.isfinite(er).all():
                    r_ = step01 / true_dd
                    if np.allclose(er, ew * r_, rtol=1e-5, atol=float(np.max(tol))) or np.allclose(er * r_, ew, rtol=1e-5, atol=float(np.max(tol))):
                        mech = "sector-grid-stored-out-of-order-bin-width-from-first-two-labels"
                rec.bad(op, key + "|" + kind, {"position": [lon, lat], "time_index": it, "kind": kind, "why": why,
                                              "max_abs_diff": float(np.nanmax(np.abs(er - ew))) if np.isfinite(er - ew).any() else None,
                                              "tolerance": float(np.max(tol)) if kind != "nan" else None, "options": opts,
                                              "written_max": float(np.nanmax(ew)) if np.isfinite(ew).any() else None,
                                              "read_sample": er.ravel()[:5], "written_sample": ew.ravel()[:5]}, mech)
                return


def funwave_cmp(rec, key, ds, back):
    from vf.oracle import integrals as I
    op = "roundtrip_funwave"
    one_d = "dir" not in ds["efth"].dims
    key += "|%s" % ("1d" if one_d else "2d")
    f = ds.freq.values.astype("float64")
    fb = np.asarray(back["freq"].values, dtype="float64")
    if fb.shape != f.shape or np.max(np.abs(fb - f)) > 5.1e-6:
        rec.bad(op, key, {"freq_written": f, "freq_read": fb}, "roundtrip-frequencies-differ:funwave")
        return
    df = I.df_ref(f)
    if one_d:
        ew = ds["efth"].values.astype("float64")
        er = np.asarray(back["efth"].values, dtype="float64")
        amp = np.sqrt(2 * ew * df)
        tol = (amp * 5.1e-9 + 2.6e-17) / df + 1e-9 * ew
    else:
        th = ds.dir.values.astype("float64")
        db = np.asarray(back["dir"].values, dtype="float64")
        if db.shape != th.shape or sorted(np.round(db % 360, 2)) != sorted(np.round(th % 360, 2)):
            rec.bad(op, key, {"dir_written": th, "dir_read": db}, "roundtrip-directions-differ:funwave")
            return
        didx = [int(np.argmin(circ_diff(db, t))) for t in th]
        ew = ds["efth"].transpose("freq", "dir").values.astype("float64")
        er = np.asarray(back["efth"].transpose("freq", "dir").values, dtype="float64")[:, didx]
        dd = I.circ_dd(th)
        amp = np.sqrt(2 * ew * df[:, None] * dd)
        tol = (amp * 5.1e-9 + 2.6e-17) / (df[:, None] * dd) + 1e-9 * ew
    if er.shape == ew.shape and np.all(np.abs(er - ew) <= tol):
        rec.ok(op, key)
    else:
        rec.bad(op, key, {"max_abs_diff": float(np.max(np.abs(er - ew))) if er.shape == ew.shape else None, "max_tol": float(np.max(tol)),
                          "shape_read": er.shape, "shape_written": ew.shape}, "roundtrip-values:funwave")
