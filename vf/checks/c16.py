"""C16: smoothing is a local circular average that keeps the grid (reference-model monitor)."""
import numpy as np

from vf import gen
from vf.cmp import close


def ref_smooth(E, th, fw, dw, circular):
    """Independent windowed mean over (freq, dir) of the last two axes of E; input value where the
    whole window does not fit. Directions are given in stored order; the window is taken over
    neighbours on the (sorted) direction axis."""
    nf, nd = E.shape[-2:]
    order = np.argsort(th)
    Es = E[..., order]
    out = Es.copy()
    lo = np.full(Es.shape, np.inf)
    hi = np.full(Es.shape, -np.inf)
    hf, hd = (fw - 1) // 2, (dw - 1) // 2
    for i in range(nf):
        fr = [k for k in range(i - hf, i + hf + 1)]
        fit_f = fr[0] >= 0 and fr[-1] <= nf - 1
        frc = [k for k in fr if 0 <= k < nf]
        for j in range(nd):
            dr = list(range(j - hd, j + hd + 1))
            if circular:
                fit_d = True
                drc = [k % nd for k in dr]
            else:
                fit_d = dr[0] >= 0 and dr[-1] <= nd - 1
                drc = [k for k in dr if 0 <= k < nd]
            win = Es[..., frc, :][..., drc]
            lo[..., i, j] = win.min((-1, -2))
            hi[..., i, j] = win.max((-1, -2))
            if fit_f and fit_d:
                out[..., i, j] = Es[..., fr, :][..., [k % nd for k in dr]].mean((-1, -2))
    inv = np.argsort(order)
    return out[..., inv], lo[..., inv], hi[..., inv]


def run(ctx):
    import xarray as xr
    import wavespectra  # noqa
    from wavespectra.core import utils

    for i, rng in ctx.cases("smooth", ctx.n(3000, 40000)):
        one(ctx, rng, xr, utils)


def one(ctx, rng, xr, utils):
    rec = ctx.rec
    nf = int(rng.choice([1, 2, 3, 5, 8, 13]))
    f, fm = gen.freq_grid(rng, nf=nf)
    full = bool(rng.random() < 0.7)
    th, dd, dmeta = gen.dir_grid(rng, nd=int(rng.choice([3, 4, 5, 8, 12, 16, 24])), full=full, exact=True)
    conv = "std"
    if full and rng.random() < 0.35:
        # other label conventions of the same full circle: north written as 360, -180..180, one turn up
        conv = str(rng.choice(["north360", "pm180", "turn_up"]))
        if conv == "north360":
            th = np.sort(np.where(th == 0.0, 360.0, th))
            conv = conv if th[-1] == 360.0 else "std"
        elif conv == "pm180":
            th = np.sort((th + 180.0) % 360.0 - 180.0)
        else:
            th = th + 360.0
    elif not full and rng.random() < 0.4:
        # uniformly spaced sector that falls 1..3 bins short of the full circle
        s_ = float(rng.choice([5.0, 7.5, 10.0, 11.25, 15.0, 22.5, 30.0]))
        short = int(rng.integers(1, 4))
        n_ = int(round(360.0 / s_)) - short
        th = float(rng.integers(0, short + 1)) * s_ + s_ * np.arange(n_)
        dd = s_
        conv = "short%d" % short
    u_ = rng.random()
    if u_ < 0.08:
        # one or two directions (a single-direction record, a two-bin sector): still a frequency-direction grid
        th = np.array([float(rng.uniform(0, 360))]) if u_ < 0.05 else np.sort(rng.choice(np.arange(0, 360, 15.0), 2, replace=False))
        full, conv, dd = False, "few", 15.0
    nd = len(th)
    lnames, lsizes = gen.lead_dims(rng, nlead=int(rng.choice([0, 0, 1, 2])), maxsize=3)
    cls = str(rng.choice(["noise", "multimodal", "plateau", "single_bin", "constant", "zeros"]))
    A, _ = gen.stack_spectra(rng, f, th, lsizes, cls=cls, distinct=False)
    dt = str(rng.choice(["float64", "float32"]))
    if rng.random() < 0.08:
        # counts / digitised densities held as integers: the window means are real numbers all the same
        dt = str(rng.choice(["int64", "int32", "uint16"]))
        A = np.round(A / max(float(np.abs(A).max()), 1e-300) * float(rng.choice([7, 100, 1000])))
    x = gen.make_da(A, f, th, lnames, lsizes, dtype=dt)
    stored = str(rng.choice(["sorted", "rolled", "reversed", "shuffled"])) if nd > 1 else "sorted"
    if stored == "rolled":
        x = x.roll(dir=int(rng.integers(1, nd)), roll_coords=True)
    elif stored == "reversed":
        x = x.isel(dir=slice(None, None, -1))
    elif stored == "shuffled":
        x = x.isel(dir=rng.permutation(nd))
    fw = int(rng.choice([w for w in range(1, max(nf, 1) + 1, 2)]))
    dw = int(rng.choice([w for w in range(1, nd + 1, 2)]))
    even = rng.random() < 0.08
    key = "%s|%s|nf=%d|nd=%d|full=%s:%s|fw=%d|dw=%d|lead=%d|%s" % (stored, dt, nf, nd, full, conv, fw, dw, len(lnames), cls)
    via = str(rng.choice(["accessor", "function", "dataset", "function_on_dataset"]))

    if rng.random() < 0.3:
        # spectral dims not last / dir before freq: the result must come back in exactly this order
        od_ = [str(d_) for d_ in rng.permutation(list(x.dims))]
        x = x.transpose(*od_)
        x = x.copy(data=np.ascontiguousarray(x.values))
        key += "|dims=" + "+".join(od_)
    # dask-backed input chunked along the spectral and/or leading dims (windows must see across chunk boundaries)
    backing = "numpy"
    x_np = x
    if rng.random() < 0.15:
        ch = {}
        if nf > 2 and rng.random() < 0.7:
            ch["freq"] = int(rng.integers(1, nf))
        if nd > 2 and rng.random() < 0.5:
            ch["dir"] = int(rng.integers(1, nd))
        for n_ in lnames:
            ch[n_] = 1
        if ch:
            x = x.chunk(ch)
            backing = "dask:" + "+".join(sorted(ch))
    key += "|" + backing

    def call(fw_, dw_):
        if via == "accessor":
            return x.spec.smooth(freq_window=fw_, dir_window=dw_)
        if via == "dataset":
            return x.to_dataset(name="efth").spec.smooth(freq_window=fw_, dir_window=dw_)
        if via == "function_on_dataset":
            # the documented Dataset input of the helper; the Dataset lists its dimensions in another order than the spectra
            # variable holds them (coordinates handed over in another order, another variable stored in front)
            import xarray as xr_
            first = xr_.DataArray(np.zeros(x.sizes[x.dims[-1]]), dims=(x.dims[-1],), coords={x.dims[-1]: x[x.dims[-1]].values})
            dsx = xr_.Dataset({"aux": first, "efth": x})
            out = utils.smooth_spec(dsx, freq_window=fw_, dir_window=dw_)
            rec.note("helper_called_on_dataset_with_other_dimension_listing")
            return out["efth"] if hasattr(out, "data_vars") else out
        return utils.smooth_spec(x, freq_window=fw_, dir_window=dw_)

    if even:
        w = int(rng.choice([2, 4, 6]))
        args = (w, dw) if rng.random() < 0.5 else (fw, w)
        try:
            call(*args)
            rec.bad("even_window", key, {"windows": args}, "even-window-accepted")
        except ValueError:
            rec.ok("even_window", "ValueError")
        except Exception as e:
            rec.bad("even_window", key, {"windows": args, "raised": repr(e)[:200]}, "even-window-wrong-exception")
        return
    try:
        r = call(fw, dw)
        r = r.compute() if hasattr(r, "compute") else r
    except Exception as e:
        rec.bad("smooth", key, {"raised": repr(e)[:300], "dir": x.dir.values, "freq": f, "windows": (fw, dw)}, "smooth-raises")
        return
    # ---- grid kept: dims, coordinate values and their stored order --------------------------------
    if tuple(r.dims) != tuple(x.dims) or any(not np.array_equal(np.asarray(r[d].values, dtype="float64") if r[d].dtype.kind == "f" else r[d].values,
                                                                 np.asarray(x[d].values, dtype="float64") if x[d].dtype.kind == "f" else x[d].values) for d in x.dims):
        rec.bad("grid_kept", key, {"dims_in": x.dims, "dims_out": r.dims, "dir_in": x.dir.values, "dir_out": r.dir.values if "dir" in r.coords else None},
                "smooth-changes-grid")
        return
    rec.ok("grid_kept", key)
    canon = list(lnames) + ["freq", "dir"]
    E = x.transpose(*canon).values.astype("float64")
    ref, lo, hi = ref_smooth(E, x.dir.values.astype("float64"), fw, dw, full)
    obs = r.transpose(*canon).values.astype("float64")
    rt = 2e-5 if dt == "float32" else 1e-9
    sc = np.abs(E).max() if E.size else 0.0
    ok, worst = close(obs, ref, rt, atol=rt * sc)
    inside = np.all((obs >= lo - rt * sc - 1e-300) & (obs <= hi + rt * sc + 1e-300))
    if fw == 1 and dw == 1:
        ident = np.array_equal(obs, E)
        (rec.ok("window_one_identity", key) if ident else rec.bad("window_one_identity", key, {"dir": x.dir.values}, "window-one-not-identity"))
    if ok and inside:
        rec.ok("smooth", key, sample={"windows": [fw, dw], "stored": stored, "dir": x.dir.values[:4]})
        if backing == "numpy" and rng.random() < 0.3:
            # same object, same windows, after an in-place edit of the input (and of the first result): the second
            # call must smooth what the object holds now
            try:
                r.values[...] = -1.0
            except Exception:
                pass
            x.values[...] = (x.values * 0.5 + rng.random(x.shape)).astype(x.dtype)
            E2 = x.transpose(*canon).values.astype("float64")
            ref2 = ref_smooth(E2, x.dir.values.astype("float64"), fw, dw, full)[0]
            try:
                r2 = call(fw, dw)
                r2 = r2.compute() if hasattr(r2, "compute") else r2
                ok2, worst2 = close(r2.transpose(*canon).values.astype("float64"), ref2, rt, atol=rt * max(np.abs(E2).max(), 1e-300))
                (rec.ok("smooth_after_edit", "%s|fw=%d|dw=%d" % (via, fw, dw)) if ok2 else
                 rec.bad("smooth_after_edit", "%s|fw=%d|dw=%d" % (via, fw, dw), {"windows": (fw, dw), "via": via, "worst_over_tol": worst2}, "smooth-returns-result-of-earlier-contents"))
            except Exception as e:
                rec.bad("smooth_after_edit", via, {"raised": repr(e)[:300]}, "smooth-raises")
    else:
        mech = None
        if stored != "sorted":
            # defect model: sorted data paired with the unsorted labels
            alt = ref_smooth(E[..., np.argsort(np.argsort(x.dir.values))] if False else E, np.sort(x.dir.values.astype("float64")), fw, dw, full)[0]
            mech = "smooth-unsorted-direction-labels"
        rec.bad("smooth", key, {"windows": (fw, dw), "dir": x.dir.values, "freq": f, "input": E, "obs": obs, "ref": ref, "within_window_bounds": bool(inside),
                                "worst_over_tol": worst, "via": via}, mech)
