"""C20: valid spectra never crash the library, down to the native code.

(a) native: stand-alone ASan+UBSan driver linked against the repository's specpart.c, fed
    exhaustive binary contents on small shapes, random contents beyond, shape sequences that
    grow/shrink/transpose (re-allocation paths); per-batch watchdog (termination).
(b) python: exception/finite-ness monitor around every public call on degenerate inputs, and
    ValueError monitor for invalid arguments. Workers run on the ASan+UBSan extension."""
import os
import struct
import subprocess
import tempfile

import numpy as np

from vf import build, gen
from vf.cmp import vals
from vf.oracle import watershed as W
from vf.oracle import peaks as P

IHMAX = [1, 2, 3, 5, 100, 1000]


# ------------------------------------------------------------------------------------------ native
def run_driver(rec, exe, cases, op, key, timeout):
    """cases: list of (spec float32 (nk,nth), ihmax). Returns list of label maps or None."""
    buf = [struct.pack("<i", len(cases))]
    for spec, ih in cases:
        nk, nth = spec.shape
        buf.append(struct.pack("<iii", nk, nth, ih))
        buf.append(np.ascontiguousarray(spec, dtype="<f4").tobytes())
    env = {k: v for k, v in os.environ.items() if k not in ("LD_PRELOAD",)}
    env["ASAN_OPTIONS"] = "detect_leaks=0:halt_on_error=1:abort_on_error=0:exitcode=99"
    env["UBSAN_OPTIONS"] = "print_stacktrace=1:halt_on_error=1:exitcode=99"
    try:
        p = subprocess.run([exe], input=b"".join(buf), capture_output=True, timeout=timeout, env=env)
    except subprocess.TimeoutExpired as e:
        last = (e.stderr or b"").decode("utf8", "replace").strip().splitlines()[-1:] or ["?"]
        rec.bad(op, key, {"reason": "no termination within %ds" % timeout, "last_progress": last,
                          "cases": [(s.shape, ih) for s, ih in cases[:5]]}, "native-nontermination")
        return None
    if p.returncode != 0:
        err = p.stderr.decode("utf8", "replace")
        prog = [l for l in err.splitlines() if l.startswith("case ")]
        idx = int(prog[-1].split()[1]) if prog else -1
        witness = cases[idx] if 0 <= idx < len(cases) else None
        kind = "native-sanitizer-report" if ("Sanitizer" in err or "runtime error" in err) else "native-crash"
        rec.bad(op, key, {"rc": p.returncode, "report": err[-3000:], "failing_case_index": idx,
                          "spec": None if witness is None else witness[0], "ihmax": None if witness is None else witness[1],
                          "previous_shape": None if idx < 1 else cases[idx - 1][0].shape}, kind)
        return None
    out = np.frombuffer(p.stdout, dtype="<i4")
    maps, o = [], 0
    for spec, ih in cases:
        nk, nth = spec.shape
        n = nk * nth
        if o + n > out.size:
            rec.bad(op, key, {"reason": "short output"}, "native-crash")
            return None
        maps.append(out[o:o + n].reshape(nth, nk).T)
        o += n
    return maps


def judge_native(rec, op, key, cases, maps, structural=True):
    for (spec, ih), lab in zip(cases, maps):
        nspec = spec.size
        if (lab == -12345).any() or lab.min() < 0 or lab.max() > nspec:
            rec.bad(op, key, {"spec": spec, "ihmax": ih, "labels": lab, "reason": "bin not written / label out of range"}, "native-output-garbage")
            continue
        lv, near = W.levels(spec, ih)
        if lv is None:
            (rec.ok(op, key) if (np.all(lab == 0) or np.all(lab == 1)) else rec.bad(op, key, {"spec": spec, "labels": lab}, "constant-spectrum-labelled"))
            continue
        if structural and not near:
            bad = W.check_map(lv, lab)
            if bad is not None:
                rec.bad(op, key, {"spec": spec, "ihmax": ih, "labels": lab, "reason": bad[0], "data": bad[1]}, "map-" + bad[0])
                continue
        rec.ok(op, key)


def native(ctx):
    rec = ctx.rec
    exe = build.build_driver()
    maxbins = ctx.n(12, 16)
    plan = []
    for nk in range(1, 9):
        for nth in range(1, 9):
            n = nk * nth
            if n <= maxbins:
                for start in range(0, 2 ** n, 8192):
                    plan.append((nk, nth, start, min(2 ** n, start + 8192)))
    nmaps = 0
    for ci, rng in ctx.cases("native_exhaustive", len(plan)):
        nk, nth, start, stop = plan[ci]
        n = nk * nth
        idx = np.arange(start, stop, dtype=np.int64)
        bits = ((idx[:, None] >> np.arange(n)) & 1).astype(np.float32).reshape(-1, nk, nth)
        for ih in IHMAX:
            cases = [(b, ih) for b in bits]
            key = "exh|%dx%d|ihmax=%d" % (nk, nth, ih)
            maps = run_driver(rec, exe, cases, "native_exhaustive", key, timeout=120)
            if maps is not None:
                nmaps += len(maps)
                judge_native(rec, "native_exhaustive", key, cases, maps, structural=(n <= 9))
    rec.extra["native_exhaustive_maps"] = nmaps
    rec.extra["exhaustive_subspace"] = ["native driver: every binary spectrum on every shape nk,nth<=8 with nk*nth<=%d, ihmax in %s" % (maxbins, IHMAX)]

    for i, rng in ctx.cases("native_sequences", ctx.n(160, 3000)):
        # one driver process per sequence: shapes grow, shrink, transpose, repeat
        seq, cases = [], []
        k = int(rng.integers(4, 40))
        nk, nth = int(rng.integers(1, 9)), int(rng.integers(1, 9))
        for _ in range(k):
            mv = str(rng.choice(["same", "transpose", "grow", "shrink", "jump", "same_size_other_shape"]))
            if mv == "transpose":
                nk, nth = nth, nk
            elif mv == "grow":
                nk, nth = nk + int(rng.integers(0, 4)), nth + int(rng.integers(0, 4))
            elif mv == "shrink":
                nk, nth = max(1, nk - int(rng.integers(0, 4))), max(1, nth - int(rng.integers(0, 4)))
            elif mv == "jump":
                big = rng.random() < 0.15
                nk, nth = int(rng.integers(1, 101 if big else 41)), int(rng.integers(1, 101 if big else 41))
            elif mv == "same_size_other_shape":
                divs = [d for d in range(1, nk * nth + 1) if (nk * nth) % d == 0]
                nk = int(rng.choice(divs))
                nth = (nk * nth) // nk if False else int((nk and (cases[-1][0].size if cases else nk * nth)) // nk) or 1
            kind = str(rng.choice(["int", "real", "zeros_one", "const", "huge", "tiny"]))
            if kind == "int":
                s = rng.integers(0, int(rng.integers(2, 6)), (nk, nth)).astype(np.float32)
            elif kind == "real":
                s = rng.random((nk, nth)).astype(np.float32)
            elif kind == "zeros_one":
                s = np.zeros((nk, nth), dtype=np.float32)
                s[rng.integers(nk), rng.integers(nth)] = 1
            elif kind == "const":
                s = np.full((nk, nth), 2.5, dtype=np.float32)
            elif kind == "huge":
                s = (rng.random((nk, nth)) * 1e30).astype(np.float32)
            else:
                s = (rng.random((nk, nth)) * 1e-6).astype(np.float32)
            cases.append((s, int(rng.choice(IHMAX + [4, 7, 10, 50, 5000]))))
        key = "seq|len=%d" % min(k // 10, 3)
        maps = run_driver(rec, exe, cases, "native_sequence", key, timeout=300)
        if maps is not None:
            judge_native(rec, "native_sequence", key, cases, maps, structural=False)
            rec.note("native_shape_changes", sum(1 for a, b in zip(cases, cases[1:]) if a[0].shape != b[0].shape))
    many_levels(ctx, rec, exe)


def many_levels(ctx, rec, exe):
    """Level counts far above the number of bins, up to 2^25: strictly positive spectra whose range is not exactly
    representable (the level index of the lowest bin must still stay below ihmax)."""
    for i, rng in ctx.cases("native_many_levels", ctx.n(48, 600)):
        cases = []
        for _ in range(3):
            nk, nth = int(rng.integers(1, 13)), int(rng.integers(1, 13))
            kind = str(rng.choice(["floor_peak", "offset", "positive"]))
            if kind == "floor_peak":
                s = np.full((nk, nth), np.float32(rng.uniform(0.05, 0.9)), dtype=np.float32)
                s[rng.integers(nk), rng.integers(nth)] += np.float32(rng.uniform(0.5, 3))
            elif kind == "offset":
                s = (rng.random((nk, nth)) * float(rng.uniform(0.1, 10)) + float(rng.uniform(0.01, 5))).astype(np.float32)
            else:
                s = (10 ** rng.uniform(-6, 2, (nk, nth))).astype(np.float32)
            cases.append((np.ascontiguousarray(s), int(rng.choice([2 ** 16, 10 ** 6, 2 ** 23, 2 ** 24, 2 ** 24, 2 ** 24 + 1, 2 ** 25]))))
        key = "levels|ihmax>=2^16"
        maps = run_driver(rec, exe, cases, "native_many_levels", key, timeout=600)
        if maps is not None:
            judge_native(rec, "native_many_levels", key, cases, maps, structural=False)


# ------------------------------------------------------------------------------------------ python
DEGENERATE = ["zeros", "constant", "single_bin", "peak_first", "peak_last", "alpha_one", "noise", "smooth"]

NEVER_NAN = {"hs", "hrms", "oned", "to_energy", "momf0", "momf2", "uss", "uss_x", "uss_y", "mss", "celerity",
             "wavelen", "split", "smooth", "rotate", "interp", "ptm1", "ptm2", "ptm3", "ptm4", "ptm5", "bbox", "momd", "crsd"}
NAN_IF_ZERO = {"tm01", "tm02", "goda", "sw", "gw", "hmax", "dspr", "fdspr", "stats", "scale_by_hs"}
NAN_IF_NOPEAK = {"tp", "fp", "tp_raw", "dpm", "dpspr", "alpha", "scale_by_hs_tp"}


def degenerate(rng, f, th, cls):
    nf, nd = len(f), len(th)
    E = np.zeros((nf, nd))
    if cls == "zeros":
        pass
    elif cls == "constant":
        E[:] = float(rng.uniform(0.01, 3))
    elif cls == "single_bin":
        E[rng.integers(nf), rng.integers(nd)] = float(rng.uniform(0.01, 3))
    elif cls == "peak_first":
        E[:] = (np.arange(nf, 0, -1.0) ** 2)[:, None] * (1 + rng.random(nd))[None, :]
    elif cls == "peak_last":
        E[:] = (np.arange(1, nf + 1.0) ** 2)[:, None] * (1 + rng.random(nd))[None, :]
    elif cls == "alpha_one":
        ip = max(1, nf - 4 + int(rng.integers(0, 3))) if nf >= 3 else 0
        ip = min(ip, nf - 2) if nf >= 3 else 0
        x = np.arange(nf)
        E[:] = np.exp(-0.5 * ((x - ip) / 0.8) ** 2)[:, None] * (1 + rng.random(nd))[None, :]
    elif cls == "noise":
        E[:] = rng.random((nf, nd))
    else:
        E, _ = gen.spectrum(rng, f, th, "multimodal")
    return E


def python_sweep(ctx):
    import xarray as xr
    import wavespectra  # noqa

    rec = ctx.rec
    for i, rng in ctx.cases("degenerate", ctx.n(400, 8000)):
        nf = int(rng.choice([1, 2, 3, 4, 5, 8, 12, 25]))
        nd = int(rng.choice([1, 2, 3, 4, 8, 24]))
        f, fm = gen.freq_grid(rng, nf=nf)
        th, dd, dmeta = gen.dir_grid(rng, nd=nd, full=True)
        cls = str(rng.choice(DEGENERATE))
        names, sizes = gen.lead_dims(rng, nlead=int(rng.choice([0, 1, 2])), maxsize=2, allow=("time", "site"))
        npos = int(np.prod(sizes)) if sizes else 1
        A = np.array([degenerate(rng, f, th, cls) for _ in range(npos)]).reshape(tuple(sizes) + (nf, nd))
        # energy level: data kept in cm2/Hz (heights of tens of "metres") or nearly calm
        A = A * float(rng.choice([1.0, 1.0, 1.0, 1.0, 1e4, 1e-8]))
        edt = str(rng.choice(["float64", "float32"]))
        da = gen.make_da(A, f, th, names, sizes, dtype=edt)
        sweep_one(rec, rng, xr, da, cls, nf, nd, names)
    for i, rng in ctx.cases("invalid", ctx.n(120, 1500)):
        invalid_args(rec, rng, xr)


def sweep_one(rec, rng, xr, da, cls, nf, nd, names):
    key = "%s|nf=%d|nd=%d|lead=%d|%s" % (cls, nf, nd, len(names), da.dtype)
    acc = da.to_dataset(name="efth").spec if rng.random() < 0.3 else da.spec
    E = da.values.astype("float64")
    f = da.freq.values.astype("float64")
    th = da.dir.values
    e1 = E.sum(-1)
    zero = (e1.sum(-1) == 0)
    flat = e1.reshape(-1, nf)
    nopeak = np.array([P.the_peak(r, 0.0)[0] is None for r in flat]).reshape(zero.shape)
    lead_shape = zero.shape
    wshape = dict(zip(names, lead_shape))
    wcoords = {n: da[n] for n in names}

    def aux(v):
        return xr.DataArray(np.full(lead_shape, v), dims=list(names), coords=wcoords)

    wspd, wdir, dpt = aux(float(rng.uniform(0, 30))), aux(float(rng.uniform(0, 360))), aux(float(rng.uniform(2, 500)))
    fmid = float((f[0] + f[-1]) / 2) if nf > 1 else None
    ops = {
        "hs": lambda: acc.hs(), "hrms": lambda: acc.hrms(), "hmax": lambda: acc.hmax(),
        "oned": lambda: acc.oned(), "to_energy": lambda: acc.to_energy(),
        "momf0": lambda: acc.momf(0), "momf2": lambda: acc.momf(2), "momd": lambda: acc.momd(1)[0],
        "tm01": lambda: acc.tm01(), "tm02": lambda: acc.tm02(), "dm": lambda: acc.dm(), "dp": lambda: acc.dp(),
        "dspr": lambda: acc.dspr(), "fdspr": lambda: acc.fdspr(), "swe": lambda: acc.swe(), "sw": lambda: acc.sw(),
        "gw": lambda: acc.gw(), "goda": lambda: acc.goda(), "crsd": lambda: acc.crsd(),
        "tp": lambda: acc.tp(), "tp_raw": lambda: acc.tp(smooth=False), "fp": lambda: acc.fp(),
        "dpm": lambda: acc.dpm(), "dpspr": lambda: acc.dpspr(), "alpha": lambda: acc.alpha(), "gamma": lambda: acc.gamma(),
        "uss": lambda: acc.uss(), "uss_x": lambda: acc.uss_x(depth=20.0), "uss_y": lambda: acc.uss_y(), "mss": lambda: acc.mss(depth=8.0),
        "celerity": lambda: acc.celerity(depth=30.0), "wavelen": lambda: acc.wavelen(),
        "stats": lambda: acc.stats(["hs", "tm02", "dm"]),
        "smooth": lambda: acc.smooth(3 if nf >= 1 else 1, 3),
        "rotate": lambda: acc.rotate(float(rng.uniform(-400, 400))),
        "interp": lambda: acc.interp(freq=np.linspace(f[0] * 0.5, f[-1] * 1.2, 7), dir=np.arange(0, 360, 30.0)),
        "scale_by_hs": lambda: acc.scale_by_hs("2*hs", hs_min=0.0, hs_max=1e9),
        "ptm3": lambda: da.spec.partition.ptm3(parts=3),
        "ptm1": lambda: da.spec.partition.ptm1(wspd, wdir, dpt, swells=2),
        "ptm2": lambda: da.spec.partition.ptm2(wspd, wdir, dpt, swells=2),
        "ptm4": lambda: da.spec.partition.ptm4(wspd, wdir, dpt),
        "bbox": lambda: da.spec.partition.bbox([dict(fmin=float(f[0]), fmax=float(f[-1]) + 1, dmin=0.0, dmax=180.0)]),
    }
    if nf >= 4 and rng.random() < 0.15:
        ops["fit_jonswap"] = lambda: da.spec.fit_jonswap(spectra=False, params=True)
        ops["fit_gaussian"] = lambda: da.spec.fit_gaussian(spectra=False, params=True)
    if nf > 1:
        ops["split"] = lambda: acc.split(fmin=float(f[0]), fmax=fmid)
        ops["ptm5"] = lambda: da.spec.partition.ptm5(fcut=fmid)
        ops["stats_split"] = lambda: acc.stats(["hs", "tm01"], fmin=float(f[0]), fmax=fmid)
        # bands that hold no grid frequency (both cutoffs inside one gap), one-sided and off-grid cutoffs
        fs_ = np.sort(np.asarray(f, dtype="float64"))
        g_ = int(rng.integers(0, nf - 1))
        lo_, hi_ = fs_[g_] + 0.25 * (fs_[g_ + 1] - fs_[g_]), fs_[g_] + 0.75 * (fs_[g_ + 1] - fs_[g_])
        if fs_[g_] < lo_ < hi_ < fs_[g_ + 1]:
            ops["split_narrow"] = lambda: acc.split(fmin=float(lo_), fmax=float(hi_))
            ops["stats_split_narrow"] = lambda: acc.stats(["hs", "tm01"], fmin=float(lo_), fmax=float(hi_))
            ops["split_fmin_only"] = lambda: acc.split(fmin=float(lo_))
            ops["split_fmax_only"] = lambda: acc.split(fmax=float(hi_))
    for op, fn in ops.items():
        try:
            r = fn()
            if isinstance(r, xr.Dataset):
                arrs = [vals(r[v]) for v in r.data_vars]
            else:
                arrs = [vals(r)]
        except Exception as e:
            mech = None
            if isinstance(e, TypeError) and "subscriptable" in str(e) and op == "alpha":
                mech = "alpha-one-frequency-window-typeerror"
            rec.bad("py_" + op, key, {"raised": repr(e)[:400], "freq": f, "dir": th, "E": E, "class": cls}, mech or ("raises:%s:%s" % (op, type(e).__name__)))
            continue
        nan = any(np.isnan(a.astype("float64")).any() for a in arrs if a.dtype.kind == "f")
        inf = any(np.isinf(a.astype("float64")).any() for a in arrs if a.dtype.kind == "f")
        allowed = False
        if op in NEVER_NAN:
            allowed = False
        elif op in NAN_IF_ZERO or op in ("swe", "dm", "dp", "gamma", "stats_split", "stats_split_narrow"):
            allowed = bool(zero.any()) or op in ("gw",) or (op in ("dspr", "fdspr"))
        if op in NAN_IF_NOPEAK:
            allowed = bool(nopeak.any())
        if op in ("sw", "stats_split", "stats_split_narrow", "fit_jonswap", "fit_gaussian"):
            allowed = True  # sw documents masking below hs 0.001; a split band can be empty
        if op in ("dpspr",):
            allowed = True  # spread of a (near) unidirectional row is at the rounding floor
        if inf and op == "alpha" and alpha_out_of_range(E, f):
            rec.skip("py_alpha", "documented tail fit exceeds the float32 range on this grid")
            continue
        if (nan and not allowed) or inf and op not in ("hmax",):
            rec.bad("py_" + op, key, {"nan": nan, "inf": inf, "freq": f, "dir": th, "E": E, "class": cls,
                                      "result": arrs[0]}, "nonfinite:%s" % op)
        else:
            rec.ok("py_" + op, key)


def alpha_out_of_range(E, f):
    """True when the documented Phillips fit itself is beyond float32 for some spectrum."""
    f32 = np.asarray(f, dtype="float32").astype("float64")
    for e in E.reshape((-1,) + E.shape[-2:]):
        e1 = e.sum(-1)
        ip, acc, amb = P.the_peak(e1, 0.0)
        if ip is None:
            continue
        for fp in (float(f32[ip]), float(P.parabola_vertex(f32, e1, ip))):
            a, _ = P.alpha_ref(e1, f32, fp)
            if not np.isfinite(a) or abs(a) > 1e30:
                return True
    return False


def invalid_args(rec, rng, xr):
    f, _ = gen.freq_grid(rng, nf=8)
    th, dd, _ = gen.dir_grid(rng, nd=12, full=True)
    E, cls = gen.spectrum(rng, f, th, "multimodal")
    da = gen.make_da(E, f, th)
    ds = da.to_dataset(name="efth")
    one = gen.make_da(E.sum(-1), f, None)
    w = xr.DataArray(10.0)
    even = int(rng.choice([2, 4, 6]))
    tests = {
        "smooth_even_freq": lambda: da.spec.smooth(freq_window=even, dir_window=3),
        "smooth_even_dir": lambda: da.spec.smooth(freq_window=3, dir_window=even),
        "split_fmax_le_fmin": lambda: da.spec.split(fmin=0.2, fmax=float(rng.choice([0.2, 0.1]))),
        "split_dmax_le_dmin": lambda: da.spec.split(dmin=90, dmax=float(rng.choice([90, 10]))),
        "bbox_overlap": lambda: da.spec.partition.bbox([dict(fmin=0.05, fmax=0.2, dmin=0, dmax=180), dict(fmin=0.1, fmax=0.3, dmin=90, dmax=270)]),
        # three boxes listed in any order; the overlapping pair is not adjacent when sorted by fmin (a box of another
        # direction sector sorts between them)
        "bbox_overlap_three": lambda: da.spec.partition.bbox([[dict(fmin=0.05, fmax=0.20, dmin=0, dmax=90), dict(fmin=0.10, fmax=0.15, dmin=180, dmax=270),
                                                               dict(fmin=0.12, fmax=0.30, dmin=45, dmax=135)][i_] for i_ in rng.permutation(3)]),
        "bbox_fmin_ge_fmax": lambda: da.spec.partition.bbox([dict(fmin=0.3, fmax=0.1)]),
        "stats_unknown": lambda: da.spec.stats(["hs", "not_a_stat"]),
        "stats_noncontainer": lambda: da.spec.stats("hs" if rng.random() < 0.5 else 3),
        "stats_names_len": lambda: da.spec.stats(["hs", "tp"], names=["a"]),
        "stats_noncallable": lambda: da.spec.stats(["freq"]),
        "hp01_wstype": lambda: da.spec.partition.hp01(w, w, w, wstype=int(rng.choice([3, -1, 7]))),
        "fit_jonswap_nothing": lambda: da.spec.fit_jonswap(spectra=False, params=False),
        "fit_gaussian_nothing": lambda: da.spec.fit_gaussian(spectra=False, params=False),
        "dm_on_1d": lambda: one.spec.dm(),
        "momd_on_1d": lambda: one.spec.momd(1),
        "dspr_on_1d": lambda: one.spec.dspr(),
        "dp_on_1d": lambda: one.spec.dp(),
        "dpm_on_1d": lambda: one.spec.dpm(),
        "dpspr_on_1d": lambda: one.spec.dpspr(),
        "uss_x_on_1d": lambda: one.spec.uss_x(),
        "sel_bad_method": lambda: ds.assign(lon=("site", [1.0]), lat=("site", [1.0])).spec.sel([1], [1], method="cubic") if False else _sel_bad(xr, da),
        "interp_freq_bad": lambda: da.spec._interp_freq(10.0),
        "partition_bad_type": lambda: __import__("wavespectra.partition.partition", fromlist=["Partition"]).Partition(np.zeros(3)),
    }
    for name, fn in tests.items():
        try:
            fn()
        except ValueError:
            rec.ok("invalid_" + name, "ValueError")
        except Exception as e:
            rec.bad("invalid_" + name, type(e).__name__, {"raised": repr(e)[:300], "expected": "ValueError"}, "invalid-arg-wrong-exception:%s" % name)
        else:
            rec.bad("invalid_" + name, "accepted", {"raised": None, "expected": "ValueError"}, "invalid-arg-accepted:%s" % name)


def _sel_bad(xr, da):
    ds = da.expand_dims(site=[0]).to_dataset(name="efth")
    ds["lon"] = ("site", [10.0])
    ds["lat"] = ("site", [10.0])
    return ds.spec.sel([10.0], [10.0], method="cubic")


def run(ctx):
    native(ctx)
    python_sweep(ctx)
