"""C19: partition tracking assigns consistent wave-system identifiers over time
(offline checker over whole recorded output histories; exhaustive short histories + random)."""
import itertools

import numpy as np

from vf.oracle import tracking as TR

STATES = [None] + [(f, d) for f in (0.100, 0.102, 0.200) for d in (10.0, 25.0)]   # 7-state alphabet


def times(T, dt=3600):
    return (np.datetime64("2020-01-01T00:00:00") + np.arange(T) * np.timedelta64(int(dt), "s")).astype("datetime64[ns]")


def run(ctx):
    import xarray as xr
    import wavespectra  # noqa
    from wavespectra.partition import tracking as tk

    rec = ctx.rec
    # ---------------- exhaustive short histories ------------------------------------------------
    plans = [(2, 3), (3, 2)] + ([(4, 2)] if ctx.thorough else [])
    chunks = []
    for (T, P) in plans:
        total = 7 ** (T * P)
        step = 4096 if total <= 200000 else 65536
        for s in range(0, total, step):
            chunks.append((T, P, s, min(total, s + step)))
    nh = 0
    for ci, rng in ctx.cases("exhaustive", len(chunks)):
        T, P, s0, s1 = chunks[ci]
        tt = times(T)
        wspd = np.full(T, 10.0)
        key = "exh|T=%d|P=%d" % (T, P)
        for n in range(s0, s1):
            fp = np.full((P, T), np.nan)
            dpm = np.full((P, T), np.nan)
            m = n
            for c in range(P * T):
                st = STATES[m % 7]
                m //= 7
                if st is not None:
                    fp[c // T, c % T], dpm[c // T, c % T] = st
            nh += 1
            judge(rec, tk, "history_exhaustive", key, tt, fp, dpm, wspd, 3600.0, {})
    rec.extra["exhaustive_histories"] = nh
    rec.extra["exhaustive_subspace"] = ["tracking: all histories over the 7-state alphabet {empty, fp in (0.100,0.102,0.200) x dpm in (10,25)} per (partition, step) for (T,P) in %s, dt=1h, wspd=10" % plans]
    # ---------------- random histories --------------------------------------------------------------
    for i, rng in ctx.cases("random", ctx.n(3000, 120000)):
        random_history(ctx, rng, tk)
    for i, rng in ctx.cases("batched", ctx.n(120, 3000)):
        batched(ctx, rng, xr, tk)
    for i, rng in ctx.cases("long_run", ctx.n(1, 3)):
        long_run(ctx, rng, tk)
    for i, rng in ctx.cases("end_to_end", ctx.n(6, 60)):
        end_to_end(ctx, rng, xr)
    for i, rng in ctx.cases("end_to_end_params", ctx.n(16, 200)):
        end_to_end_params(ctx, rng, xr)


def judge(rec, tk, op, key, tt, fp, dpm, wspd, dt, kw, sample=False):
    try:
        ids, n = tk.np_track_partitions(tt, fp.copy(), dpm.copy(), wspd.copy(), **kw)
    except Exception as e:
        mech = "tracking-raises:" + type(e).__name__
        if isinstance(e, TypeError) and "scalar" in str(e):
            mech = "tracking-raises-on-every-input"
        if isinstance(e, OverflowError):
            mech = "identifier-overflows-int16"
        rec.bad(op, key, {"raised": repr(e)[:300], "fp": fp, "dpm": dpm}, mech)
        return None
    prob, amb = TR.check(fp, dpm, wspd, dt, ids, n,
                         ddpm_sea_max=kw.get("ddpm_sea_max", 30), ddpm_swell_max=kw.get("ddpm_swell_max", 20),
                         scaling=kw.get("dfp_sea_scaling", 1.0), distance=kw.get("dfp_swell_source_distance", 1e6))
    if prob is None:
        rec.ok(op, key, sample={"fp": fp, "ids": ids, "n": int(n)} if sample else None)
    elif amb:
        rec.skip(op, "a change exactly on a threshold")
    else:
        rec.bad(op, key, {"problem": prob[0], "data": prob[1], "fp": fp, "dpm": dpm, "wspd": wspd, "ids": ids, "nreported": int(n), "kwargs": kw}, "tracking:" + prob[0])
    return ids, n


def gen_history(rng, T, P):
    """Wave systems that appear, drift, cross, disappear; partition slots reshuffled between steps."""
    fp = np.full((P, T), np.nan)
    dpm = np.full((P, T), np.nan)
    systems = []
    for t in range(T):
        # evolve
        for s in systems:
            s["f"] += float(rng.choice([0.0, 0.0005, -0.0005, 0.002, -0.004, 0.02]))
            s["d"] = (s["d"] + float(rng.choice([0.0, 3.0, -7.0, 15.0, 25.0, -40.0]))) % 360
        systems = [s for s in systems if rng.random() > 0.12 and 0.03 < s["f"] < 0.5]
        while len(systems) < P and rng.random() < 0.35:
            systems.append({"f": float(rng.uniform(0.04, 0.3)), "d": float(rng.choice([rng.uniform(0, 360), 357.0, 3.0]))})
        slots = rng.permutation(P) if rng.random() < 0.4 else np.arange(P)
        for k, s in enumerate(systems[:P]):
            fp[slots[k], t], dpm[slots[k], t] = s["f"], s["d"]
    return fp, dpm


def random_history(ctx, rng, tk):
    rec = ctx.rec
    T = int(rng.choice([2, 3, 5, 12, 40, 200]))
    P = int(rng.integers(1, 7))
    dt = float(rng.choice([600, 1800, 3600, 10800]))
    fp, dpm = gen_history(rng, T, P)
    wspd = rng.uniform(1, 25, T) if rng.random() < 0.7 else 10 ** rng.uniform(-1.5, 0.3, T)     # light airs too
    kw = {}
    if rng.random() < 0.5:
        kw = {"ddpm_sea_max": float(rng.choice([10, 30, 60])), "ddpm_swell_max": float(rng.choice([5, 20, 45])),
              "dfp_sea_scaling": float(rng.choice([0.5, 1.0, 2.0])), "dfp_swell_source_distance": float(rng.choice([2e5, 1e6, 5e6]))}
    key = "rnd|T=%d|P=%d|dt=%d|%s" % (T, P, dt, "defaults" if not kw else "swept")
    judge(rec, tk, "history_random", key, times(T, dt), fp, dpm, wspd, dt, kw, sample=(T <= 5))


def batched(ctx, rng, xr, tk):
    """Sites are tracked independently: each site of track_partitions equals the single-site call."""
    rec = ctx.rec
    T, P, S = int(rng.integers(2, 12)), int(rng.integers(1, 5)), int(rng.integers(2, 5))
    tt = times(T)
    fps, dps = zip(*[gen_history(rng, T, P) for _ in range(S)])
    fp = np.stack(fps, 0)
    dp = np.stack(dps, 0)
    wspd = rng.uniform(1, 25, (S, T)) if rng.random() < 0.7 else 10 ** rng.uniform(-1.5, 0.3, (S, T))
    order = str(rng.choice(["site,part,time", "time,site,part", "part,time,site"]))
    stats = xr.Dataset({"fp": (("site", "part", "time"), fp), "dpm": (("site", "part", "time"), dp)},
                       coords={"site": np.arange(S), "part": np.arange(P), "time": tt}).transpose(*order.split(","))
    w = xr.DataArray(wspd, dims=["site", "time"], coords={"site": np.arange(S), "time": tt})
    key = "batched|S=%d|P=%d|order=%s" % (S, P, order)
    try:
        out = tk.track_partitions(stats, w)
        ids = out["part_id"].transpose("site", "part", "time").values
        ns = out["npart_id"].values
    except Exception as e:
        rec.bad("sites_independent", key, {"raised": repr(e)[:300]}, "tracking-raises:" + type(e).__name__)
        return
    for s in range(S):
        r = judge(rec, tk, "history_random", "rnd|via-batched", tt, fp[s], dp[s], wspd[s], 3600.0, {})
        if r is None:
            return
        if np.array_equal(r[0], ids[s]) and int(r[1]) == int(ns[s]):
            rec.ok("sites_independent", key)
        else:
            rec.bad("sites_independent", key, {"site": s, "single": r[0], "batched": ids[s]}, "tracking:site-of-batched-call-differs-from-single-site-call")


def long_run(ctx, rng, tk):
    """Identifier range: T steps x 2 partitions that never match -> 2T identifiers."""
    rec = ctx.rec
    T = 17000
    fp = np.vstack([0.05 + 0.2 * (np.arange(T) % 2), 0.3 - 0.2 * (np.arange(T) % 2)])
    dpm = np.vstack([(np.arange(T) * 97.0) % 360, (np.arange(T) * 97.0 + 180) % 360])
    judge(rec, tk, "history_long", "long|T=%d|P=2|never-matching" % T, times(T), fp, dpm, np.full(T, 8.0), 3600.0, {})


def end_to_end_params(ctx, rng, xr):
    """The thresholds given to spec.partition.ptm1_track must be the ones used: a slowly varying sea
    state keeps its identifiers under the defaults, and with a threshold made prohibitive (source
    distance 1e12 m, direction windows 1e-3 deg, sea scaling such that no drop is allowed) the whole
    output history must still satisfy the continuity rule recomputed with *those* thresholds."""
    from vf import gen
    rec = ctx.rec
    f = np.linspace(0.04, 0.4, 14)
    th = np.arange(0, 360, 30.0)
    T = int(rng.integers(3, 6))
    base = gen.spectrum(rng, f, th, "multimodal")[0]
    # slowly varying: each step a little more of the spectrum turned by one bin (mean directions drift by ~0.1-1 deg)
    A = np.array([(1 - 0.02 * k) * base * (1 + 0.01 * k) + 0.02 * k * np.roll(base, 1, axis=1) for k in range(T)])
    da = gen.make_da(A, f, th, ["time"], [T])
    co = {"time": da.time}
    w = xr.DataArray(np.full(T, 3.0), dims=["time"], coords=co)
    wd = xr.DataArray(np.full(T, 10.0), dims=["time"], coords=co)
    dp = xr.DataArray(np.full(T, 50.0), dims=["time"], coords=co)
    which = str(rng.choice(["dfp_swell_source_distance", "ddpm_swell_max", "ddpm_sea_max", "defaults"]))
    kw = {"dfp_swell_source_distance": {"dfp_swell_source_distance": 1e12}, "ddpm_swell_max": {"ddpm_swell_max": 1e-3},
          "ddpm_sea_max": {"ddpm_sea_max": 1e-3, "ddpm_swell_max": 1e-3}, "defaults": {}}[which]
    key = "ptm1_track|" + which
    try:
        out = da.spec.partition.ptm1_track(w, wd, dp, swells=3, **kw).compute()
        ids = out["part_id"].transpose("part", "time").values
        stats = out["efth"].spec.stats(["fp", "dpm"]).compute()
        fp = stats["fp"].transpose("part", "time").values.astype("float64")
        dpm = stats["dpm"].transpose("part", "time").values.astype("float64")
        prob, amb = TR.check(fp, dpm, w.values, 3600.0, ids, int(out["npart_id"].values),
                             ddpm_sea_max=kw.get("ddpm_sea_max", 30), ddpm_swell_max=kw.get("ddpm_swell_max", 20),
                             distance=kw.get("dfp_swell_source_distance", 1e6), dd_noise=2e-4, df_noise=1e-7)
        carried = int(sum(len(set(ids[:, t][ids[:, t] >= 0]) & set(ids[:, t - 1][ids[:, t - 1] >= 0])) for t in range(1, T)))
        if which == "defaults":
            rec.note("ptm1_track_identifiers_carried_under_defaults", carried)
        if prob is None or amb:
            rec.ok("ptm1_track_params", key, sample={"carried": carried})
        else:
            rec.bad("ptm1_track_params", key, {"problem": prob[0], "data": prob[1], "kwargs": kw, "ids": ids}, "ptm1-track-ignores-a-threshold-argument" if which != "defaults" else "tracking:" + prob[0])
    except Exception as e:
        rec.bad("ptm1_track_params", key, {"raised": repr(e)[:300]}, "tracking-raises:" + type(e).__name__)


def end_to_end(ctx, rng, xr):
    """spec.partition.ptm1_track on a small dataset: the call and its computation must succeed."""
    from vf import gen
    rec = ctx.rec
    f = np.linspace(0.04, 0.4, 12)
    th = np.arange(0, 360, 30.0)
    T = int(rng.integers(2, 6))
    A = np.array([gen.spectrum(rng, f, th, "multimodal")[0] for _ in range(T)])
    da = gen.make_da(A, f, th, ["time"], [T])
    co = {"time": da.time}
    wv = rng.uniform(3, 20, T)
    calm = bool(rng.random() < 0.4)
    if calm:
        # records without any wind (exactly 0 m/s): the swells present are still wave systems to be identified
        wv[rng.random(T) < 0.5] = 0.0
        wv[int(rng.integers(T))] = 0.0
        rec.note("ptm1_track_calm_records")
    w = xr.DataArray(wv, dims=["time"], coords=co)
    wd = xr.DataArray(rng.uniform(0, 360, T), dims=["time"], coords=co)
    dp = xr.DataArray(np.full(T, 50.0), dims=["time"], coords=co)
    try:
        out = da.spec.partition.ptm1_track(w, wd, dp, swells=2).compute()
        ids = out["part_id"].transpose("part", "time").values
        stats = out["efth"].spec.stats(["fp", "dpm"]).compute()
        fp = stats["fp"].transpose("part", "time").values.astype("float64")
        dpm = stats["dpm"].transpose("part", "time").values.astype("float64")
        prob, amb = TR.check(fp, dpm, w.values, 3600.0, ids, int(out["npart_id"].values), dd_noise=2e-4, df_noise=1e-7)
        if prob is None or amb:
            rec.ok("ptm1_track", "T=%d" % T)
        else:
            rec.bad("ptm1_track", "T=%d" % T, {"problem": prob[0], "data": prob[1], "ids": ids, "fp": fp}, "tracking:" + prob[0])
    except Exception as e:
        rec.bad("ptm1_track", "T=%d" % T, {"raised": repr(e)[:300]}, "tracking-raises:" + type(e).__name__)
