"""C05: results depend on labelled values, not on storage order, layout, dtype width or where the
stored direction sequence starts (metamorphic monitor over pairs of recorded executions)."""
import numpy as np

from vf import gen, ops as O
from vf.compare import compare, align_to, compare_parts, compare_cancel, CANCEL
from vf.oracle import peaks as P

TRANSFORMS = ["permute", "fortran", "strided", "widen", "roll", "roll_seam", "reverse", "sortby"]


def transform(rng, x, T, xr):
    """Return (x', description). x' carries the same labelled values as x."""
    if T == "permute":
        order = list(rng.permutation(list(x.dims)))
        if order == list(x.dims):
            order = order[::-1]
        y = x.transpose(*order)
        y = y.copy(data=np.ascontiguousarray(y.values))   # really stored in the new order
        return y, "dims=%s" % ",".join(order)
    if T == "fortran":
        return x.copy(data=np.asfortranarray(x.values)), "F-contiguous"
    if T == "strided":
        big = np.zeros(tuple(2 * s for s in x.shape), dtype=x.dtype)
        view = big[tuple(slice(None, None, 2) for _ in x.shape)]
        view[...] = x.values
        return x.copy(data=view), "strided view"
    if T == "widen":
        # data are float32-representable by construction
        to = "float64" if x.dtype == np.float32 else "float32"
        return x.astype(to), "astype(%s)" % to
    if T == "roll":
        k = int(rng.integers(1, max(2, x.sizes["dir"])))
        return x.roll(dir=k, roll_coords=True), "roll dir by %d" % k
    if T == "roll_seam":
        # put the 0/360 seam between the first two stored directions
        srt = x.sortby("dir")
        return srt.roll(dir=1, roll_coords=True), "seam between first two stored directions"
    if T == "reverse":
        return x.isel(dir=slice(None, None, -1)), "descending directions"
    if T == "sortby":
        y = x.roll(dir=int(rng.integers(1, max(2, x.sizes["dir"]))), roll_coords=True)
        return y.sortby("dir"), "rolled then sortby(dir)"
    raise ValueError(T)


def run(ctx):
    import xarray as xr
    import wavespectra  # noqa

    ops = O.build()
    names = [n for n in ops if n not in ("hmax",)]
    for i, rng in ctx.cases("pairs", ctx.n(700, 20000)):
        one(ctx, rng, xr, ops, names)
    for i, rng in ctx.cases("sector_pairs", ctx.n(240, 6000)):
        one(ctx, rng, xr, ops, names, sector=True)
    for i, rng in ctx.cases("partition_rotations", ctx.n(192, 4000)):
        partition_rotations(ctx, rng, xr, ops)


def partition_rotations(ctx, rng, xr, ops):
    """Noisy, many-peaked spectra (many basins, merging in hp01) partitioned from several rotations of the stored
    direction sequence - always including the seam between the first two stored labels - and dimension orders."""
    rec = ctx.rec
    nf, nd = int(rng.choice([8, 12, 20])), int(rng.choice([8, 12, 24]))
    f = 0.04 * 1.1 ** np.arange(nf) if rng.random() < 0.5 else np.linspace(0.04, 0.4, nf)
    th = np.arange(nd) * (360.0 / nd) + float(rng.choice([0.0, 180.0 / nd]))
    E = np.zeros((nf, nd))
    for _ in range(int(rng.integers(3, 9))):
        E += gen.spectrum(rng, f, th, "smooth")[0] * float(10 ** rng.uniform(-1, 0.5))
    E = E * (1.0 + 0.6 * rng.random(E.shape)) + 1e-4 * rng.random(E.shape)
    x = gen.make_da(E.astype("float32").astype("float64"), f, th, [], [])
    aux = O.make_aux(rng, x, xr)
    aux["wspd"], aux["wdir"], aux["dpt"] = xr.DataArray(float(rng.uniform(3, 15))), xr.DataArray(float(rng.uniform(0, 360))), xr.DataArray(float(rng.uniform(10, 500)))
    name = str(rng.choice(["hp01", "hp01", "hp01", "ptm1", "ptm2", "ptm3"]))
    op = ops[name]
    try:
        ra = op.fn(x, aux)
    except Exception as e:
        rec.skip(name, "reference execution raised %s" % type(e).__name__)
        return
    for k in sorted({1, nd - 1, int(rng.integers(1, nd))}):
        y = x.roll(dir=k, roll_coords=True)
        if rng.random() < 0.3:
            y = y.transpose("dir", "freq")
        key = "%s|rotation=%s|nd=%d|dims=%s" % (name, "seam_first" if k == 1 else ("seam_last" if k == nd - 1 else "other"), nd, "+".join(y.dims))
        try:
            rb = op.fn(y, aux)
        except Exception as e:
            rec.bad("partition_rotations", key, {"raised": repr(e)[:300], "dir_stored": y.dir.values}, "raises-under-transform:roll")
            continue
        ok, det = compare_parts(ra, rb, 1 if name in ("ptm1", "hp01") else (2 if name == "ptm2" else 0))
        if ok:
            rec.ok("partition_rotations", key)
        else:
            rec.bad("partition_rotations", key, {"dir_ref": x.dir.values, "dir_T": y.dir.values, "diff": det, "freq": f, "spectrum": x.values,
                                                 "wind": [float(aux["wspd"]), float(aux["wdir"]), float(aux["dpt"])], "swells": aux["swells"]},
                    classify(name, "roll", det, x, y))


def ties(x, op):
    """True when a discrete decision inside `op` is an exact or near tie for some spectrum."""
    E = x.transpose(..., "freq", "dir").values.astype("float64")
    E = E.reshape(-1, E.shape[-2], E.shape[-1])
    for e in E:
        if op.peak or op.name in ("scale_by_hs",):
            e1 = e.sum(-1)
            ip, acc, amb = P.the_peak(e1, 1e-9 * (e1.max() + 1e-300))
            if amb or len(acc) > 1:
                return True
        if op.name == "dp":
            s = np.sort(e.sum(0))
            if s.size > 1 and s[-1] - s[-2] <= 1e-9 * (s[-1] + 1e-300):
                return True
        if op.name in ("dm", "dpm"):
            # direction of a (near) zero resultant is decided by rounding (e.g. equal energies on
            # opposite / evenly spread directions of integer-valued spectra)
            t = np.radians(x.dir.values.astype("float64"))
            if "dir" in x.dims:
                t = np.radians(x.transpose(..., "freq", "dir").dir.values.astype("float64"))
            rows = [e.sum(0)] if op.name == "dm" else []
            if op.name == "dpm":
                e1 = e.sum(-1)
                ip, acc, amb = P.the_peak(e1, 1e-9 * (e1.max() + 1e-300))
                rows = [e[k] for k in acc]
            for r in rows:
                tot = r.sum()
                if tot > 0 and np.hypot((r * np.sin(t)).sum(), (r * np.cos(t)).sum()) <= 1e-6 * tot:
                    return True
    return False


def one(ctx, rng, xr, ops, names, sector=False):
    rec = ctx.rec
    nf = int(rng.choice([3, 4, 6, 9, 14]))
    f, fm = gen.freq_grid(rng, nf=nf, dtype="float64")
    f = f.astype("float32").astype("float64")
    if sector:
        # a uniformly spaced sector (directional buoy / flume / SWAN sector run): no circle to rotate round, but the
        # stored order (ascending or descending), dimension order, layout and width must still not matter
        th, dd, dmeta = gen.dir_grid(rng, nd=int(rng.choice([3, 4, 7, 10, 18])), full=False, exact=True)
    else:
        th, dd, dmeta = gen.dir_grid(rng, nd=int(rng.choice([3, 4, 8, 12, 24])), full=True, exact=True)
    lnames, lsizes = gen.lead_dims(rng, nlead=int(rng.choice([0, 1, 2])), maxsize=3)
    cls = str(rng.choice(["multimodal", "multimodal", "smooth", "noise", "single_bin", "dynrange"]))
    A, classes = gen.stack_spectra(rng, f, th, lsizes, cls=cls)
    A = A.astype("float32").astype("float64")
    A[np.abs(A) < 1e-30] = 0
    base_dt = str(rng.choice(["float64", "float32"]))
    x = gen.make_da(A, f, th, lnames, lsizes, dtype=base_dt)
    if not sector and rng.random() < 0.3:   # WW3-like stored order as the *reference* layout too
        x = x.roll(dir=int(rng.integers(1, len(th))), roll_coords=True)
    aux = O.make_aux(rng, x, xr)
    T = str(rng.choice(["permute", "fortran", "strided", "widen", "reverse", "reverse", "reverse"] if sector else TRANSFORMS))
    y, tdesc = transform(rng, x, T, xr)
    chosen = list(rng.choice(names, size=8, replace=False))
    f32 = (x.dtype == np.float32) or (y.dtype == np.float32)
    rtol = 2e-5 if f32 else 1e-9
    for name in chosen:
        op = ops[name]
        if nf < op.min_nf:
            continue
        if op.watershed and T == "reverse":
            continue   # the statement exempts the watershed's tie-breaking from orientation
        key = "%s|T=%s|%s|nd=%d|lead=%d|%s%s" % (name, T, base_dt, len(th), len(lnames), cls, "|sector" if sector else "")
        if sector:
            rec.note("sector:" + T)
        if (op.exact or op.peak or name in ("dp", "dm")) and ties(x, op):
            rec.skip(name, "discrete decision tied within rounding")
            continue
        try:
            ra = op.fn(x, aux)
        except Exception as e:
            rec.skip(name, "reference execution raised %s" % type(e).__name__)
            continue
        try:
            rb = op.fn(y, aux)
        except Exception as e:
            rec.bad(name, key, {"transform": tdesc, "raised": repr(e)[:300], "dir_stored": y.dir.values, "dims": y.dims}, "raises-under-transform:" + T)
            continue
        if op.watershed:
            ok, det = compare_parts(ra, rb, 1 if name in ("ptm1", "hp01") else (2 if name == "ptm2" else 0))
        elif name in CANCEL:
            ok, det = compare_cancel(ra, rb, f32, name)
            if ok is None:
                rec.skip(name, "difference of nearly equal moments (cancellation)")
                continue
        else:
            # alpha / gamma are float32 fits around a float32 peak frequency: the summation order changes with the layout
            ok, det = compare(ra, rb, rtol * (300 if name in ("dspr", "swe", "sw", "gw", "dpspr", "dpspr_mom2") else (20 if (f32 and name in ("alpha", "gamma")) else 1)),
                              circ=op.circ, circ_atol=(0.05 if f32 else 1e-6), exact=False)
        if ok:
            rec.ok(name, key, sample={"transform": tdesc})
        else:
            rec.bad(name, key, {"transform": tdesc, "dims_ref": x.dims, "dims_T": y.dims, "dir_ref": x.dir.values,
                                "dir_T": y.dir.values, "layout_T": "F" if y.values.flags.f_contiguous and not y.values.flags.c_contiguous else ("C" if y.values.flags.c_contiguous else "strided"),
                                "diff": det}, classify(name, T, det, x, y))


def classify(name, T, det, x, y):
    """Mechanism keys of the defects once present on this tree (all repaired; listed as fixed)."""
    lay = y.values.flags
    if name in ("ptm1", "ptm2", "ptm3") and not lay.c_contiguous:
        return "watershed-reads-non-contiguous-memory"
    if name == "smooth" and T in ("roll", "roll_seam", "reverse", "sortby"):
        return "smooth-unsorted-direction-labels"
    d = np.asarray(y.dir.values, dtype="float64")
    if d.size > 2 and abs(abs(d[1] - d[0]) - abs(d[2] - d[1])) > 1e-9 and isinstance(det, dict) and det.get("reason") == "values differ":
        return "dd-from-first-two-stored-directions"
    return None
