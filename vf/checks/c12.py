"""C12: model-native datasets are converted with the right units and direction sense
(reference-encoder monitor: native datasets built in memory from a ground-truth spectrum)."""
import os
import shutil

import numpy as np

from vf.cmp import close, circ_diff
from vf.oracle import native as N
from vf.oracle import integrals as I

MODELS = ["ww3", "ncswan", "wwm", "era5", "ndbc"]


class Dispatch:
    """Records which converter read_dataset chose (wrappers on the names it looks up at call time)."""

    def __init__(self, mod):
        self.mod = mod
        self.calls = []
        for name in ("from_ww3", "from_ncswan", "from_wwm", "from_era5", "from_ndbc"):
            orig = getattr(mod, name)
            setattr(mod, name, self._wrap(name, orig))

    def _wrap(self, name, orig):
        def w(*a, **k):
            self.calls.append(name)
            return orig(*a, **k)
        w.__wrapped__ = orig
        return w

    def take(self):
        c, self.calls = self.calls, []
        return c


def run(ctx):
    import xarray as xr
    import wavespectra  # noqa
    from wavespectra.input import dataset as dmod
    from wavespectra.input import ww3, ncswan, wwm, era5, ndbc

    disp = Dispatch(dmod)
    ctx.file_readers = {"ww3": ww3.read_ww3, "ncswan": ncswan.read_ncswan, "wwm": wwm.read_wwm, "era5": era5.read_era5, "ndbc": ndbc.read_ndbc}
    direct = {"ww3": ww3.from_ww3, "ncswan": ncswan.from_ncswan, "wwm": wwm.from_wwm, "era5": era5.from_era5, "ndbc": ndbc.from_ndbc}
    for i, rng in ctx.cases("native", ctx.n(4000, 60000)):
        model = MODELS[i % len(MODELS)]
        one(ctx, rng, xr, model, dmod, disp, direct)


def sibling(rng, ds):
    sib = ds.copy(deep=True)
    for name in list(sib.variables):
        v = sib[name]
        if v.ndim == 1 and v.dtype.kind == "f" and v.size >= 3:
            a = np.array(v.values, dtype="float64")
            d = np.diff(a)
            if np.all(d > 0) or np.all(d < 0):
                a[1:-1] += 0.3 * np.abs(d).min() * rng.uniform(-1, 1, a.size - 2)
                if name in sib.coords and name in sib.dims:
                    sib = sib.assign_coords({name: a.astype(v.dtype)})
                else:
                    sib[name] = (v.dims, a.astype(v.dtype), dict(v.attrs))
        elif v.dtype.kind == "f" and v.ndim >= 2:
            sib[name] = (v.dims, (v.values * rng.uniform(0.2, 3.0)).astype(v.dtype), dict(v.attrs))
    return sib


def one(ctx, rng, xr, model, dmod, disp, direct):
    rec = ctx.rec
    u_ = rng.random()
    # routes: the dispatcher, the converter, and - through a NetCDF-3 file written from the native dataset - the
    # file reader (read_<model>) and the registered xarray engine (xr.open_dataset(path, engine=<model>))
    via = "read_dataset" if u_ < 0.5 else ("from_" + model if u_ < 0.8 else ("read_%s(file)" % model if u_ < 0.9 else "open_dataset(engine=%s)" % model))
    opts = {}
    if model == "ww3":
        opts = dict(with_wind=bool(rng.random() < 0.7), with_depth=bool(rng.random() < 0.7), lonlat_time=bool(rng.random() < 0.6))
        ds, t = N.ww3(rng, **opts)
    elif model == "ncswan":
        opts = dict(with_wind=bool(rng.random() < 0.7), with_depth=bool(rng.random() < 0.7), lonlat_time=bool(rng.random() < 0.4))
        ds, t = N.ncswan(rng, **opts)
    elif model == "wwm":
        opts = dict(with_wind=bool(rng.random() < 0.7), with_depth=bool(rng.random() < 0.6))
        ds, t = N.wwm(rng, **opts)
    elif model == "era5":
        opts = dict(missing=bool(rng.random() < 0.7), custom=bool(rng.random() < 0.35))
        ds, t = N.era5(rng, **opts)
    else:
        opts = dict(with_moments=bool(rng.random() < 0.75))
        ds, t = N.ndbc(rng, **opts)
    key = "%s|%s|%s" % (model, via, ",".join("%s=%s" % kv for kv in sorted(opts.items())))
    kw = {}
    if model == "ndbc":
        kw = {"directional": bool(rng.random() < 0.75), "dd": float(rng.choice([10.0, 5.0, 20.0, 45.0, 7.5, 2.5, 7.2, 3.6, 14.4, 1.8, 0.9, 12.0]))}
        key += "|directional=%s" % kw["directional"]
    if "reader_options" in t:
        kw = dict(t["reader_options"])
        as_array = bool(rng.random() < 0.5)
        if as_array:
            kw = {k_: np.asarray(v_) for k_, v_ in kw.items()}
        key += "|freqs,dirs=%s" % ("ndarray" if as_array else "list")
        rec.note("era5_reader_options:" + via)
    if model != "ndbc" and rng.random() < 0.3:
        # the native variables held in another dimension order (e.g. direction before frequency): pairing of the
        # conversion factors with the axes must go by dimension name
        for vn in list(ds.data_vars):
            if ds[vn].ndim >= 3:
                od_ = [str(d_) for d_ in rng.permutation(list(ds[vn].dims))]
                ds[vn] = ds[vn].transpose(*od_).copy(data=np.ascontiguousarray(ds[vn].transpose(*od_).values))
        key += "|dims-permuted"
    if rng.random() < 0.2:
        # dask-backed native dataset (as opened from a file with chunks)
        d0_ = [d_ for d_ in ds.dims if ds.sizes[d_] > 1]
        ds = ds.chunk({d0_[0]: 1} if d0_ and rng.random() < 0.7 else {})
        key += "|dask"
    if rng.random() < 0.3:
        # history: a sibling dataset of the same model and shape - same first/last value of every monotonic
        # 1-D float axis, other interior values, other data - is converted first (caches keyed on too little)
        sib = sibling(rng, ds)
        try:
            dmod.read_dataset(sib, **kw) if via == "read_dataset" else direct[model](sib, **kw)
        except Exception:
            pass
        key += "|after-sibling"
        rec.ok("history", "%s|%s" % (model, via))
    disp.take()
    tmpd = None
    try:
        if via == "read_dataset":
            out = dmod.read_dataset(ds, **kw)
        elif via.startswith("from_"):
            out = direct[model](ds, **kw)
        else:
            import tempfile
            tmpd = tempfile.mkdtemp(prefix="vf-c12-")
            path = os.path.join(tmpd, "native_%s.nc" % model)
            try:
                ds.to_netcdf(path, format="NETCDF3_64BIT")
            except Exception as e:      # the monitor's own file could not be written: nothing observed
                rec.skip("convert", "native dataset not expressible as NetCDF-3: %s" % type(e).__name__)
                return
            if via.startswith("read_"):
                out = ctx.file_readers[model](path, **kw)
            else:
                out = xr.open_dataset(path, engine=model, **kw)
            out = out.load()
            out.close()
            rec.note("file_route:" + via.split("(")[0].split("_")[0] + ":" + model)
    except Exception as e:
        mech = "converter-raises:" + model
        if model == "era5" and "truth value of an array" in repr(e) and any(isinstance(v_, np.ndarray) for v_ in kw.values()):
            mech = "era5-array-valued-reader-options-raise"
        if model == "wwm" and not opts["with_depth"]:
            mech = "wwm-missing-optional-variable-raises"
        rec.bad("convert", key, {"raised": repr(e)[:300], "variables": list(ds.variables)}, mech)
        return
    finally:
        if tmpd:
            shutil.rmtree(tmpd, ignore_errors=True)
    if via == "read_dataset":
        chosen = disp.take()
        if chosen[:1] == ["from_" + model]:
            rec.ok("dispatch", key)
        else:
            rec.bad("dispatch", key, {"chosen": chosen, "variables": list(ds.variables)}, "dispatcher-chose-wrong-converter")
            return
    if model == "ndbc":
        return ndbc_check(rec, key, out, t, kw, opts)
    if np.any(t["E"] == 0.0):
        rec.note("truth_with_exactly_zero_bins:" + model)
    # ---- names and dims --------------------------------------------------------------------------
    if "efth" not in getattr(out, "data_vars", {}) or not {"freq", "dir"} <= set(out["efth"].dims):
        rec.bad("convention", key, {"data_vars": list(getattr(out, "data_vars", [])), "dims": dict(getattr(out, "sizes", {}))},
                "era5-native-dataset-not-renamed" if model == "era5" else "output-not-in-wavespectra-convention")
        return
    ef = out["efth"]
    lead = t["lead"]
    if set(ef.dims) != set(lead + ["freq", "dir"]):
        rec.bad("convention", key, {"dims": ef.dims, "want": lead + ["freq", "dir"]}, "output-dims-not-in-wavespectra-convention")
        return
    rec.ok("convention", key)
    ef = ef.transpose(*lead, "freq", "dir")
    fo = np.asarray(out["freq"].values, dtype="float64")
    do = np.asarray(out["dir"].values, dtype="float64")
    # ---- direction axis: coming-from in [0, 360) ---------------------------------------------------
    if not (np.all(do >= 0) and np.all(do < 360)):
        rec.bad("dir_range", key, {"dir": do}, "directions-outside-0-360")
        return
    rec.ok("dir_range", key)
    # single-precision natives: WW3 / ERA5 by definition; any model whose spectral coordinates were stored as float32
    f32 = model in ("ww3", "era5") or any(ds[v].dtype == np.float32 for v in ("direction", "SPDIR", "frequency", "SPSIG") if v in ds.variables)
    rt = 3e-5 if f32 else 1e-9
    if fo.shape != t["freq"].shape or np.max(np.abs(fo - t["freq"]) / t["freq"]) > (1e-6 if f32 else 1e-12):
        rec.bad("freq", key, {"freq_out": fo, "freq_true": t["freq"]}, "frequency-coordinate-wrong")
        return
    rec.ok("freq", key)
    # every bin keeps its physical direction: match output directions to the truth's
    td = t["dir"] % 360.0
    if do.shape != td.shape or np.max(circ_diff(do, td)) > 1e-3:
        # same set in another order is fine (align by labels); a shifted set is not
        idx = [int(np.argmin(circ_diff(td, d))) for d in do]
        if do.shape != td.shape or sorted(idx) != list(range(len(td))) or np.max(circ_diff(td[idx], do)) > 1e-3:
            rec.bad("direction_sense", key, {"dir_out": do, "dir_true_coming_from": td}, "direction-sense-or-units-wrong")
            return
    else:
        idx = list(range(len(td)))
    Eo = np.asarray(ef.values, dtype="float64")
    Et = t["E"][..., idx]
    ok, worst = close(Eo, Et, rt, atol=rt * np.abs(Et).max())
    if ok:
        rec.ok("bins", key, sample={"dir_out": do[:4], "dir_true": td[:4]})
    else:
        ratio = np.nanmedian(Eo[Et > 1e-6 * Et.max()] / Et[Et > 1e-6 * Et.max()]) if (Et > 0).any() else np.nan
        rec.bad("bins", key, {"worst_over_tol": worst, "median_ratio_out_over_true": ratio, "dir_out": do, "dir_true": td}, "density-units-or-bin-placement-wrong")
        return
    # ---- variance with converted coordinates == native variance ---------------------------------------
    dd = I.circ_dd(do)
    var_out = (Eo * I.df_ref(fo)[:, None] * dd).sum((-1, -2))
    ok, worst = close(var_out, t["native_variance"], 5e-5 if f32 else 1e-9, atol=1e-300)
    (rec.ok("variance", key) if ok else rec.bad("variance", key, {"variance_out": var_out, "native_variance": t["native_variance"], "worst_over_tol": worst}, "variance-not-preserved"))
    # ---- winds, depth, positions ---------------------------------------------------------------------------
    if "wspd" in t:
        if "wspd" not in out or "wdir" not in out:
            rec.bad("wind", key, {"vars": list(out.data_vars)}, "wind-missing-from-output")
        else:
            ws = np.asarray(out["wspd"].transpose(*[d for d in lead if d in out["wspd"].dims]).values, dtype="float64")
            wd = np.asarray(out["wdir"].transpose(*[d for d in lead if d in out["wdir"].dims]).values, dtype="float64")
            good = close(ws, t["wspd"], 1e-6)[0] and np.all(circ_diff(wd, t["wdir"]) <= 1e-3) and np.all((wd >= 0) & (wd < 360.0 + 1e-9))
            (rec.ok("wind", key) if good else rec.bad("wind", key, {"wspd": ws, "wspd_true": t["wspd"], "wdir": wd, "wdir_true_coming_from": t["wdir"]}, "wind-speed-or-direction-wrong"))
    if "dpt" in t:
        if "dpt" not in out:
            rec.bad("depth", key, {"vars": list(out.data_vars)}, "depth-missing-from-output")
        else:
            good = close(np.asarray(out["dpt"].values, dtype="float64"), t["dpt"], 1e-6)[0]
            (rec.ok("depth", key) if good else rec.bad("depth", key, {}, "depth-wrong"))
    if "lon" in t:
        if "lon" not in out.variables or "lat" not in out.variables:
            rec.bad("position", key, {"vars": list(out.variables)}, "lon-lat-missing-from-output")
        else:
            good = "time" not in out["lon"].dims and close(np.asarray(out["lon"].values, dtype="float64").ravel(), t["lon"], 1e-6)[0] \
                and close(np.asarray(out["lat"].values, dtype="float64").ravel(), t["lat"], 1e-6)[0]
            (rec.ok("position", key) if good else rec.bad("position", key, {"lon_dims": out["lon"].dims}, "lon-lat-wrong"))


def ndbc_check(rec, key, out, t, kw, opts):
    if "efth" not in getattr(out, "data_vars", {}) or "freq" not in out["efth"].dims:
        rec.bad("convention", key, {"data_vars": list(getattr(out, "data_vars", []))}, "output-not-in-wavespectra-convention")
        return
    ef = out["efth"]
    two_d = kw["directional"] and opts["with_moments"]
    if two_d != ("dir" in ef.dims):
        rec.bad("convention", key, {"dims": ef.dims, "expected_2d": two_d}, "ndbc-wrong-dimensionality")
        return
    rec.ok("convention", key)
    fo = np.asarray(out["freq"].values, dtype="float64")
    if not np.array_equal(fo, t["freq"]):
        rec.bad("freq", key, {"freq_out": fo}, "frequency-coordinate-wrong")
        return
    extra = [d for d in ef.dims if d not in ("time", "freq", "dir")]
    sq = ef.isel({d: 0 for d in extra})
    if not two_d:
        v = np.asarray(sq.transpose("time", "freq").values, dtype="float64")
        (rec.ok("ndbc_1d_unchanged", key) if np.array_equal(v, t["c11"]) else rec.bad("ndbc_1d_unchanged", key, {"out": v, "c11": t["c11"]}, "ndbc-1d-spectrum-changed"))
        return
    do = np.asarray(out["dir"].values, dtype="float64")
    want = np.arange(0, 360, kw["dd"])
    if not np.array_equal(do, want):
        rec.bad("dir_range", key, {"dir": do, "want": want}, "ndbc-direction-grid")
        return
    rec.ok("dir_range", key)
    v = np.asarray(sq.transpose("time", "freq", "dir").values, dtype="float64")
    ref = N.ndbc_truth_2d(t, do)
    ok, worst = close(v, ref, 1e-9, atol=1e-12 * np.abs(ref).max())
    (rec.ok("bins", key) if ok else rec.bad("bins", key, {"worst_over_tol": worst}, "ndbc-directional-distribution-wrong"))
    integ = v.sum(-1) * kw["dd"]
    ok, worst = close(integ, t["c11"], 1e-9)
    (rec.ok("ndbc_integrates_to_1d", key) if ok else rec.bad("ndbc_integrates_to_1d", key, {"integral": integ, "c11": t["c11"], "worst_over_tol": worst}, "ndbc-2d-does-not-integrate-to-1d"))
