"""C13: instrument file readers return what the file says, 2-D consistent with 1-D
(reference-encoder monitor: files written by independent encoders, read by the real readers)."""
import os
import shutil
import tempfile

import numpy as np

from vf.cmp import close, circ_diff
from vf.oracle import formats as F

KINDS = ["triaxys_dir", "triaxys_nondir", "ndbc_realtime", "ndbc_history", "ndbc_1d", "spotter_csv", "spotter_json", "datawell",
         "obscape", "ww3_station", "swan", "swan", "xwaves", "swanmulti_now", "swanmulti_sites", "swangrid_one", "swangrid_hot"]


def run(ctx):
    import xarray as xr
    import wavespectra as ws

    # the reading process's local time zone must not matter: each worker runs in one of four zones
    import time as _time
    zone = ["UTC", "Europe/Amsterdam", "Australia/Perth", "America/Los_Angeles"][ctx.shard % 4]
    os.environ["TZ"] = zone
    _time.tzset()
    ctx.rec.ok("process_time_zone", zone)
    tmp = tempfile.mkdtemp(prefix="vf-c13-")
    try:
        for i, rng in ctx.cases("files", ctx.n(2600, 40000)):
            kind = KINDS[i % len(KINDS)]
            # half of the files are written to a path already used by an earlier file of the same kind (a data file
            # refreshed in place): the reader must return what the file says *now*
            if rng.random() < 0.5:
                d = os.path.join(tmp, "reused-" + kind)
                shutil.rmtree(d, ignore_errors=True)
                os.mkdir(d)
                ctx.rec.ok("path_reused", kind)
            else:
                d = tempfile.mkdtemp(dir=tmp)
            try:
                globals()["do_" + kind.split("_")[0]](ctx.rec, rng, ws, xr, d, kind)
            finally:
                shutil.rmtree(d, ignore_errors=True)
    finally:
        shutil.rmtree(tmp, ignore_errors=True)


def t64(x, unit="s"):
    return np.asarray(x).astype("datetime64[%s]" % unit)


def times_ok(rec, op, key, out, truth_times, unit="s"):
    got = t64(out["time"].values, unit)
    want = np.sort(t64(truth_times, unit))
    if got.shape == want.shape and np.array_equal(got, want):
        return True
    rec.bad(op, key, {"times_read": got.astype(str), "times_in_file_sorted": want.astype(str)}, "timestamps-differ-or-unsorted")
    return False


def order_of(truth_times):
    return np.argsort(t64(truth_times, "s"), kind="stable")


def reader(rec, op, key, fn):
    try:
        return fn()
    except Exception as e:
        rec.bad(op, key, {"raised": repr(e)[:400]}, "reader-raises:" + op)
        return None


def backend_same(rec, rng, xr, engine, path, out, p=0.3, ignore=(), **kw):
    """The xarray backend entry point of a format (`xr.open_dataset(file, engine=...)`) returns what the reader returns.
    `ignore`: variables the file does not encode (a SWAN file without TIME is stamped with the wall clock of the read, so
    two reads a minute apart legitimately differ there)."""
    if out is None or rng.random() > p:
        return
    key = "engine=%s%s" % (engine, "".join("|%s" % k for k in sorted(kw)))
    try:
        ds2 = xr.open_dataset(path, engine=engine, **kw)
    except Exception as e:
        rec.bad("backend_entrypoint", key, {"raised": repr(e)[:400]}, "backend-entrypoint-raises:" + engine)
        return
    try:
        same = set(ds2.variables) == set(out.variables) and all(
            tuple(ds2[v].dims) == tuple(out[v].dims) and np.array_equal(np.asarray(ds2[v].values), np.asarray(out[v].values), equal_nan=ds2[v].dtype.kind == "f")
            for v in out.variables if v not in ignore)
    except Exception as e:
        same = False
    (rec.ok("backend_entrypoint", key) if same else
     rec.bad("backend_entrypoint", key, {"variables_reader": sorted(map(str, out.variables)), "variables_backend": sorted(map(str, ds2.variables))}, "backend-entrypoint-differs-from-reader:" + engine))


def cart_ref(th, dm, sig):
    """Independent cos^2s spreading normalised over the reader's direction grid (per degree)."""
    dd = th[1] - th[0]
    s = 2.0 / np.radians(sig) ** 2 - 1.0
    d = np.abs((th[None, :] - dm[:, None] + 180.0) % 360.0 - 180.0)
    g = np.cos(np.radians(d) / 2.0) ** (2.0 * s[:, None])
    return g / (g.sum(-1, keepdims=True) * dd)


# ------------------------------------------------------------------------------------------------
def do_triaxys(rec, rng, ws, xr, d, kind):
    directional = kind == "triaxys_dir"
    nfiles = int(rng.integers(1, 5))
    paths, t = F.triaxys(rng, d, directional=directional, nfiles=nfiles)
    key = "%s|files=%d|nf=%d|nd=%s" % (kind, nfiles, len(t["freq"]), "-" if not directional else len(t["dir"]))
    if t.get("vary_f0"):
        key += "|bands-start-at-different-frequencies"
        rec.note("triaxys_files_with_different_initial_frequency")
    arg = paths if nfiles > 1 or rng.random() < 0.5 else paths[0]
    out = reader(rec, "triaxys", key, lambda: ws.read_triaxys(arg))
    if nfiles == 1:
        backend_same(rec, rng, xr, "triaxys", paths[0], out)
    if out is None or not times_ok(rec, "triaxys", key, out, t["time"], "m"):
        return
    fo = np.asarray(out["freq"].values, dtype="float64")
    if fo.shape != t["freq"].shape or np.max(np.abs(fo - t["freq"])) > 1e-9:
        rec.bad("triaxys", key, {"freq_read": fo, "freq_header": t["freq"]}, "frequencies-differ:triaxys")
        return
    o = order_of(t["time"])
    if directional:
        do_ = np.asarray(out["dir"].values, dtype="float64")
        if do_.shape != t["dir"].shape or np.max(np.abs(do_ - t["dir"])) > 1e-9:
            rec.bad("triaxys", key, {"dir_read": do_, "dir_header": t["dir"]}, "directions-differ:triaxys")
            return
        got = out["efth"].transpose("time", "freq", "dir").values
    else:
        got = out["efth"].transpose("time", "freq").values
    ok, worst = close(got, t["E"][o], 1e-9 if t.get("vary_f0") else 1e-12, atol=1e-12 * float(np.abs(t["E"]).max()) if t.get("vary_f0") else 0.0)
    (rec.ok("triaxys", key, sample={"files": len(paths), "first_row": got[0, 0].ravel()[:3] if directional else got[0, :3]}) if ok else
     rec.bad("triaxys", key, {"worst_over_tol": worst}, "densities-differ:triaxys"))
    if ok and rng.random() < 0.3:
        # documented option: the logger's time-zone offset from UTC in hours; every stamp moves by it, nothing else changes
        h_ = float(rng.choice([10.0, -8.0, 5.5, 12.0, -3.5]))
        outz = reader(rec, "triaxys_toff", key, lambda: ws.read_triaxys(arg, toff=h_))
        if outz is not None and times_ok(rec, "triaxys_toff", key + "|toff=%g" % h_, outz, np.asarray(t["time"]).astype("datetime64[m]") - np.timedelta64(int(round(h_ * 60)), "m"), "m"):
            gz_ = outz["efth"].transpose("time", "freq", "dir").values if directional else outz["efth"].transpose("time", "freq").values
            (rec.ok("triaxys_toff", key + "|toff=%g" % h_) if np.array_equal(gz_, got) else
             rec.bad("triaxys_toff", key + "|toff=%g" % h_, {"toff": h_}, "time-offset-read-changes-densities"))
    if ok and directional and rng.random() < 0.4:
        # declination-corrected read (directions turned by the magnetic variation and regridded back onto the file's
        # direction axis): same times, frequencies and directions, and every record keeps the wave height the file holds
        mv = float(rng.choice([10.0, -15.0, 22.5, 360.0, -7.3]))
        outm = reader(rec, "triaxys_declination", key, lambda: ws.read_triaxys(arg, magnetic_variation=mv))
        if outm is None:
            return
        same_axes = all(np.array_equal(np.asarray(outm[c].values), np.asarray(out[c].values)) for c in ("time", "freq", "dir"))
        h0 = np.asarray(out.spec.hs().values, dtype="float64").reshape(-1)
        h1 = np.asarray(outm.spec.hs().values, dtype="float64").reshape(-1)
        good = same_axes and h0.shape == h1.shape and np.all(np.abs(h1 - h0) <= 1e-9 * np.maximum(h0, 1e-300))
        if good and abs(mv) == 360.0:
            efm = outm["efth"] if hasattr(outm, "data_vars") else outm       # (this path returns the spectra array itself)
            good = close(efm.transpose("time", "freq", "dir").values, got, 1e-9, atol=1e-12 * float(np.abs(got).max()))[0]
        (rec.ok("triaxys_declination", key + "|mv=%g" % mv) if good else
         rec.bad("triaxys_declination", key + "|mv=%g" % mv, {"axes_kept": bool(same_axes), "hs_file": h0[:6], "hs_corrected": h1[:6], "magnetic_variation": mv},
                 "declination-corrected-read-changes-wave-height-or-axes"))


def do_ndbc(rec, rng, ws, xr, d, kind):
    style = "history" if kind == "ndbc_history" else "realtime"
    directional = kind != "ndbc_1d"
    if kind == "ndbc_1d":
        style = str(rng.choice(["realtime", "history"]))
    minutes = bool(rng.random() < 0.7) or style == "realtime"
    paths, t = F.ndbc(rng, d, style=style, directional=directional, minutes=minutes)
    key = "%s|style=%s|minutes=%s" % (kind, style, minutes)
    dd = float(rng.choice([10.0, 5.0, 15.0]))
    dirs = np.arange(0, 360, dd)
    out = reader(rec, "ndbc", key, lambda: ws.read_ndbc_ascii(paths if directional else paths[0], dirs=dirs) if directional else ws.read_ndbc_ascii(paths[0]))
    if directional:
        backend_same(rec, rng, xr, "ndbc_ascii", paths, out, dirs=dirs)
    else:
        backend_same(rec, rng, xr, "ndbc_ascii", paths[0], out)
    if out is None or not times_ok(rec, "ndbc", key, out, t["time"], "m"):
        return
    fo = np.asarray(out["freq"].values, dtype="float64")
    if fo.shape != t["freq"].shape or np.max(np.abs(fo - t["freq"])) > 1e-6:
        rec.bad("ndbc", key, {"freq_read": fo, "freq_file": t["freq"]}, "frequencies-differ:ndbc")
        return
    o = order_of(t["time"])
    c11 = t["spec"][o]
    got = out["efth"].transpose("time", "freq", "dir").values
    if not directional:
        good = got.shape[-1] == 1 and np.array_equal(got[..., 0], c11)
        (rec.ok("ndbc_1d_unchanged", key) if good else rec.bad("ndbc_1d_unchanged", key, {"read": got[..., 0], "file": c11}, "1d-spectrum-changed:ndbc"))
        return
    a1, a2, r1, r2 = (t[k][o] for k in ("swdir", "swdir2", "swr1", "swr2"))
    th = dirs[None, None, :]
    D = (0.5 + r1[..., None] * np.cos(np.radians(th - a1[..., None])) + r2[..., None] * np.cos(2 * np.radians(th - a2[..., None]))) / np.pi * np.pi / 180.0
    ok, worst = close(got, c11[..., None] * D, 1e-9, atol=1e-12 * np.abs(c11).max())
    (rec.ok("ndbc", key) if ok else rec.bad("ndbc", key, {"worst_over_tol": worst}, "directional-distribution-wrong:ndbc"))
    integ = got.sum(-1) * dd
    ok, worst = close(integ, c11, 1e-9)
    (rec.ok("integrates_to_1d:ndbc", key) if ok else rec.bad("integrates_to_1d:ndbc", key, {"integral": integ[0], "file": c11[0], "worst_over_tol": worst}, "2d-does-not-integrate-to-1d:ndbc"))


def _buoy(rec, op, key, out1, out2, t, dd, has_pos):
    """Shared checks for Spotter / Datawell: 1-D unchanged, 2-D = E(f) x normalised cos2s, integrates back."""
    o = order_of(t["time"])
    e = t["e"][o]
    f = t["freq"]
    for out in (out1, out2):
        fo = np.asarray(out["freq"].values, dtype="float64")
        if fo.shape != f.shape or np.max(np.abs(fo - f)) > 1e-12:
            rec.bad(op, key, {"freq_read": fo, "freq_file": f}, "frequencies-differ:" + op)
            return
    g1 = out1["efth"].transpose("time", "freq").values
    ok, worst = close(g1, e, 1e-12)
    (rec.ok("1d_unchanged:" + op, key) if ok else rec.bad("1d_unchanged:" + op, key, {"worst_over_tol": worst, "read": g1[0][:4], "file": e[0][:4]}, "1d-spectrum-changed:" + op))
    th = np.asarray(out2["dir"].values, dtype="float64")
    if not np.array_equal(th, np.arange(0, 360, dd)):
        rec.bad(op, key, {"dir_read": th, "dd": dd}, "directions-differ:" + op)
        return
    g2 = out2["efth"].transpose("time", "freq", "dir").values
    integ = g2.sum(-1) * dd
    ok, worst = close(integ, e, 1e-9)
    (rec.ok("integrates_to_1d:" + op, key) if ok else rec.bad("integrates_to_1d:" + op, key, {"worst_over_tol": worst}, "2d-does-not-integrate-to-1d:" + op))
    dm, sg = t["dmf"][o], t["dsprf"][o]
    ref = np.array([e[k][:, None] * cart_ref(th, dm[k], sg[k]) for k in range(e.shape[0])])
    ok, worst = close(g2, ref, 1e-9, atol=1e-12 * np.abs(ref).max())
    (rec.ok(op, key) if ok else rec.bad(op, key, {"worst_over_tol": worst}, "directional-distribution-wrong:" + op))
    if has_pos:
        for nm in ("lat", "lon"):
            v = np.asarray(out1[nm].values, dtype="float64").reshape(-1)
            if not np.allclose(v, t[nm][o], atol=1e-9):
                rec.bad("position:" + op, key, {nm: v, "file": t[nm][o]}, "position-wrong:" + op)
                return
        rec.ok("position:" + op, key)


def do_spotter(rec, rng, ws, xr, d, kind):
    k = "csv" if kind == "spotter_csv" else "json"
    paths, t = F.spotter(rng, d, kind=k)
    dd = float(rng.choice([5.0, 10.0, 15.0]))
    key = "%s|dd=%g|records=%d" % (kind, dd, len(t["time"]))
    o1 = reader(rec, "spotter", key, lambda: ws.read_spotter(paths[0], dd=None))
    o2 = reader(rec, "spotter", key, lambda: ws.read_spotter(paths[0], dd=dd))
    if rng.random() < 0.3:
        backend_same(rec, rng, xr, "spotter", paths[0], reader(rec, "spotter", key, lambda: ws.read_spotter(paths[0])), p=1.0)
    if o1 is None or o2 is None or not times_ok(rec, "spotter", key, o1, t["time"]) or not times_ok(rec, "spotter", key, o2, t["time"]):
        return
    _buoy(rec, "spotter", key, o1, o2, t, dd, True)


def do_datawell(rec, rng, ws, xr, d, kind):
    paths, t = F.datawell(rng, d)
    dd = float(rng.choice([5.0, 10.0, 15.0]))
    key = "datawell|dd=%g|files=%d" % (dd, len(paths))
    arg = paths if len(paths) > 1 else paths[0]
    o1 = reader(rec, "datawell", key, lambda: ws.read_datawell(arg, dd=None))
    o2 = reader(rec, "datawell", key, lambda: ws.read_datawell(arg, dd=dd, lon=12.5, lat=-3.25))
    if o1 is None or o2 is None or not times_ok(rec, "datawell", key, o1, t["time"], "m") or not times_ok(rec, "datawell", key, o2, t["time"], "m"):
        return
    _buoy(rec, "datawell", key, o1, o2, t, dd, False)


def do_obscape(rec, rng, ws, xr, d, kind):
    import os, shutil
    via_dir = bool(rng.random() < 0.4)
    sub = os.path.join(d, "obscape_dir")
    if via_dir:
        os.makedirs(sub, exist_ok=True)
    paths, t = F.obscape(rng, sub if via_dir else d)
    key = "obscape|files=%d|nd=%d" % (len(paths), len(t["dir"]))
    if via_dir:
        # the directory reader picks the files by the stamp in their names; the record times are the files' own
        # "# Timestamp" lines - the names here carry a local-time stamp (hours off the UTC content)
        from wavespectra.input.obscape import read_obscape_dir
        shift = int(rng.choice([0, 2, -5, 10]))
        if shift:
            tmp_ = []
            for k_, p_ in enumerate(list(paths)):      # two phases: a new name may be another file's old name
                os.rename(p_, os.path.join(sub, "tmp%d.part" % k_))
                tmp_.append(os.path.join(sub, "tmp%d.part" % k_))
            for p_, tt in zip(tmp_, t["time"]):
                s_ = str((tt + np.timedelta64(shift, "h")).astype("datetime64[s]"))
                os.rename(p_, os.path.join(sub, "%s_%s_wavebuoy_spec2D.csv" % (s_[:10].replace("-", ""), s_[11:19].replace(":", ""))))
        key += "|read_obscape_dir|name-stamp-offset=%dh" % shift
        rec.note("obscape_directory_reader")
        out = reader(rec, "obscape", key, lambda: read_obscape_dir(sub))
        shutil.rmtree(sub, ignore_errors=True)
    else:
        out = reader(rec, "obscape", key, lambda: ws.read_obscape(list(paths)))
    if out is None or not times_ok(rec, "obscape", key, out, t["time"]):
        return
    fo, do_ = np.asarray(out["freq"].values, dtype="float64"), np.asarray(out["dir"].values, dtype="float64")
    if not np.array_equal(fo, t["freq"]) or not np.array_equal(do_, t["dir"]):
        rec.bad("obscape", key, {"freq_read": fo, "dir_read": do_}, "coordinates-differ:obscape")
        return
    o = order_of(t["time"])
    got = out["efth"].transpose("time", "freq", "dir").values
    ok, worst = close(got, t["E"][o], 1e-12)
    (rec.ok("obscape", key) if ok else rec.bad("obscape", key, {"worst_over_tol": worst, "ratio": float(np.nanmedian(got[t["E"][o] > 0] / t["E"][o][t["E"][o] > 0]))}, "densities-differ:obscape"))


def do_ww3(rec, rng, ws, xr, d, kind):
    nloc = 1 if rng.random() < 0.75 else 2
    paths, t = F.ww3_station(rng, d, nloc=nloc)
    key = "ww3_station|nloc=%d|nd=%d" % (nloc, len(t["dir"]))
    try:
        out = ws.read_ww3_station(paths[0])
    except Exception as e:
        mech = "reader-raises:ww3_station"
        if nloc > 1 and isinstance(e, ValueError) and "reshape" in str(e) and len(np.unique(t["lat"])) * len(np.unique(t["lon"])) != nloc:
            mech = "ww3-station-points-not-on-a-grid-raises"      # defect model: points forced onto a lat x lon grid
        elif nloc > 1 and "conflicting sizes for dimension 'site'" in str(e) and min(len(np.unique(t["lat"])), len(np.unique(t["lon"]))) < nloc:
            mech = "ww3-station-points-sharing-a-latitude-or-longitude-raise"      # same model, other statement: lat / lon per site built from the unique values
        rec.bad("ww3_station", key, {"raised": repr(e)[:300], "lat": t["lat"], "lon": t["lon"], "nloc": nloc}, mech)
        return
    backend_same(rec, rng, xr, "ww3_station", paths[0], out)
    if not times_ok(rec, "ww3_station", key, out, t["time"]):
        return
    fo, do_ = np.asarray(out["freq"].values, dtype="float64"), np.asarray(out["dir"].values, dtype="float64")
    if fo.shape != t["freq"].shape or np.max(np.abs(fo - t["freq"])) > 1e-12:
        rec.bad("ww3_station", key, {"freq_read": fo}, "frequencies-differ:ww3_station")
        return
    if do_.shape != t["dir"].shape or np.max(circ_diff(do_, t["dir"])) > 1e-6 or not (np.all(do_ >= 0) and np.all(do_ < 360 + 1e-9)):
        rec.bad("ww3_station", key, {"dir_read": do_, "dir_file_as_coming_from_deg": t["dir"]}, "directions-differ:ww3_station")
        return
    if nloc > 1:
        rec.skip("ww3_station", "several points: the reader lays them out on a lat x lon grid (not compared)")
        return
    got = out["efth"].transpose("time", "lat", "lon", "freq", "dir").values[:, 0, 0]
    ok, worst = close(got, t["E"][:, 0], 1e-12)
    (rec.ok("ww3_station", key) if ok else rec.bad("ww3_station", key, {"worst_over_tol": worst, "ratio": float(np.nanmedian(got[t["E"][:, 0] > 0] / t["E"][:, 0][t["E"][:, 0] > 0]))}, "densities-differ:ww3_station"))
    w = t["wind"][:, 0]
    good = np.allclose(out["wspd"].values.reshape(-1), w[:, 0]) and np.allclose(out["wdir"].values.reshape(-1), w[:, 1]) and np.allclose(out["dpt"].values.reshape(-1), w[:, 2]) \
        and np.allclose(np.asarray(out["lat"].values).reshape(-1), t["lat"]) and np.allclose(np.asarray(out["lon"].values).reshape(-1), t["lon"])
    (rec.ok("ww3_station_aux", key) if good else rec.bad("ww3_station_aux", key, {"wspd": out["wspd"].values.reshape(-1), "file": w}, "wind-depth-position-wrong:ww3_station"))


def do_swan(rec, rng, ws, xr, d, kind):
    opts = {"time": bool(rng.random() < 0.8), "loc": str(rng.choice(["LONLAT", "LOCATIONS"])), "freq": str(rng.choice(["AFREQ", "RFREQ"])),
            "dirs": str(rng.choice(["NDIR", "CDIR"])), "quant": str(rng.choice(["VaDens", "EnDens"])), "gz": bool(rng.random() < 0.25)}
    paths, t = F.swan(rng, d, opts)
    key = "swan|" + "|".join("%s=%s" % kv for kv in sorted(opts.items()))
    out = reader(rec, "swan", key, lambda: ws.read_swan(paths[0], as_site=True))
    backend_same(rec, rng, xr, "swan", paths[0], out, ignore=() if opts["time"] else ("time",), as_site=True)
    if out is None:
        return
    if opts["time"] and not times_ok(rec, "swan", key, out, t["time"]):
        return
    fo, do_ = np.asarray(out["freq"].values, dtype="float64"), np.asarray(out["dir"].values, dtype="float64")
    if fo.shape != t["freq"].shape or np.max(np.abs(fo - t["freq"])) > 1e-12:
        rec.bad("swan", key, {"freq_read": fo, "freq_file": t["freq"]}, "frequencies-differ:swan")
        return
    want_d = np.sort(t["dir"] % 360.0)
    if do_.shape != want_d.shape or np.max(np.abs(do_ - want_d)) > 1e-9:
        rec.bad("swan", key, {"dir_read": do_, "dir_file_nautical_sorted": want_d}, "directions-differ:swan")
        return
    idx = np.argsort(t["dir"] % 360.0)
    got = out["efth"].transpose("time", "site", "freq", "dir").values
    want = t["E"][..., idx]
    if got.shape != want.shape:
        rec.bad("swan", key, {"shape_read": got.shape, "shape_file": want.shape}, "shape-differs:swan")
        return
    ok, worst = close(got, want, 1e-9, atol=1e-300)
    if not ok:
        nz = np.isfinite(want) & (want > 0) & np.isfinite(got)
        rec.bad("swan", key, {"worst_over_tol": worst, "median_ratio": float(np.median(got[nz] / want[nz])) if nz.any() else None,
                              "nan_pattern_equal": bool(np.array_equal(np.isnan(got), np.isnan(want)))}, "densities-differ:swan")
        return
    pos = np.allclose(np.asarray(out["lon"].values).reshape(-1), t["x"], atol=1e-9) and np.allclose(np.asarray(out["lat"].values).reshape(-1), t["y"], atol=1e-9)
    if not pos:
        rec.bad("swan", key, {"lon": out["lon"].values, "x": t["x"]}, "positions-differ:swan")
        return
    kinds = sorted(set(k for row in t["kinds"] for k in row))
    rec.ok("swan", key + "|" + "+".join(kinds), sample={"options": opts, "blocks": kinds})


def do_swanmulti(rec, rng, ws, xr, d, kind):
    """Multi-file SWAN readers: read_swanow (overlapping dates from the most recent file win) and
    read_swans (files of one cycle concatenated along site)."""
    nf, nd = int(rng.integers(3, 12)), int(rng.choice([8, 12, 24]))
    f = 0.04 * 1.1 ** np.arange(nf)
    th = (360.0 / nd) * np.arange(nd)
    t0 = np.datetime64("2022-05-01T00:00:00")
    if kind == "swanmulti_now":
        x, y = np.array([round(float(rng.uniform(0, 359)), 6)]), np.array([round(float(rng.uniform(-60, 60)), 6)])
        nfiles = int(rng.integers(2, 4))
        truth = {}
        paths = []
        for k in range(nfiles):                       # later file name = more recent run, overlapping the previous one
            start = t0 + np.timedelta64(int(k * rng.integers(1, 4)) * 3600, "s")
            nt = int(rng.integers(2, 6))
            p_, times, E, fv, dv = F.swan_series(rng, d, "run%02d.spec" % k, f, th, x, y, start, nt)
            paths.append(p_)
            for t, e in zip(times, E):
                truth[t] = e[0]                       # the most recent file containing a date wins
        key = "swanow|files=%d" % nfiles
        out = reader(rec, "swan_multi", key, lambda: __import__('wavespectra.input.swan', fromlist=['read_swanow']).read_swanow(list(rng.permutation(paths))))
        if out is None:
            return
        tt = np.array(sorted(truth))
        if not times_ok(rec, "swan_multi", key, out, tt):
            return
        lead = [dn for dn in out["efth"].dims if dn not in ("time", "freq", "dir")]
        got = out["efth"].isel({dn: 0 for dn in lead}).transpose("time", "freq", "dir").values
        want = np.array([truth[t] for t in tt])
        ok, worst = close(got, want, 1e-9)
        if ok:
            rec.ok("swan_multi", key)
        else:
            wrong = [str(t) for t, g, w_ in zip(tt, got, want) if not close(g, w_, 1e-9)[0]]
            rec.bad("swan_multi", key, {"dates_with_wrong_spectra": wrong[:6], "worst_over_tol": worst}, "swanow-overlapping-dates-not-from-most-recent-file")
        return
    # read_swans: same cycle, several files -> sites concatenated in sorted file order
    nfiles = int(rng.integers(2, 4))
    nt = int(rng.integers(1, 5))
    paths, Es, xs, ys, names = [], [], [], [], []
    for k in range(nfiles):
        ns = 1      # one point per file (the layout read_swans documents: files of a cycle are concatenated along site)
        x, y = np.round(rng.uniform(0, 359, ns), 6), np.round(rng.uniform(-60, 60, ns), 6)
        p_, times, E, fv, dv = F.swan_series(rng, d, "part%02d.spec" % k, f, th, x, y, t0, nt)
        paths.append(p_)
        Es.append(E)
        xs += list(x)
        ys += list(y)
    key = "swans|files=%d|nt=%d" % (nfiles, nt)
    ifq = False
    if rng.random() < 0.35:
        # documented reader option: the spectra of every file put on a common frequency axis (linear between the file's
        # frequencies, the file's own values on its nodes, nothing outside its range)
        ifq = np.sort(np.concatenate([fv[:: int(rng.integers(1, 3))], rng.uniform(fv[0] * 0.8, fv[-1] * 1.2, int(rng.integers(1, 5)))]))
        key += "|int_freq"
    out = reader(rec, "swan_multi", key, lambda: __import__('wavespectra.input.swan', fromlist=['read_swans']).read_swans(list(rng.permutation(paths)), int_freq=ifq, int_dir=False))
    if out is None or not times_ok(rec, "swan_multi", key, out, times):
        return
    want = np.concatenate(Es, axis=1)
    if ifq is not False:
        fo_ = np.asarray(out["freq"].values, dtype="float64")
        if fo_.shape != ifq.shape or np.max(np.abs(fo_ - ifq)) > 1e-12:
            rec.bad("swan_multi", key, {"freq_read": fo_, "freq_requested": ifq}, "swans-requested-frequencies-not-returned")
            return
        w_ = np.moveaxis(want, 2, -1)                                   # (..., dir, freq)
        want = np.moveaxis(np.apply_along_axis(lambda col: np.interp(ifq, fv, col, left=0.0, right=0.0), -1, w_), -1, 2)
        rec.note("swans_read_onto_requested_frequencies")
    got = out["efth"].transpose("time", "site", "freq", "dir").values
    if got.shape != want.shape:
        rec.bad("swan_multi", key, {"shape_read": got.shape, "shape_files": want.shape}, "swans-shape")
        return
    ok, worst = close(got, want, 1e-9)
    pos = np.allclose(out["lon"].values, xs, atol=1e-9) and np.allclose(out["lat"].values, ys, atol=1e-9)
    (rec.ok("swan_multi", key) if ok and pos else rec.bad("swan_multi", key, {"worst_over_tol": worst, "positions_ok": bool(pos)}, "swans-sites-wrong"))

def do_swangrid(rec, rng, ws, xr, d, kind):
    """Gridded SWAN ASCII files (every point listed with its own longitude and latitude, longitude-major as SWAN hotfiles
    and tests/sample_files list them): read_swan must put every spectrum at the latitude / longitude the file gives for
    it; read_hotswan must merge the parts of a parallel run (split along the longer grid side, one shared row / column
    that only one part computed, the other holding zeros there) into the whole grid."""
    nf, nd = int(rng.integers(3, 10)), int(rng.choice([8, 12, 24]))
    f = 0.04 * 1.1 ** np.arange(nf)
    th = (360.0 / nd) * np.arange(nd)
    t0 = np.datetime64("2021-11-30T21:00:00")
    nx, ny = int(rng.integers(1, 6)), int(rng.integers(1, 6))
    if kind == "swangrid_hot" and max(nx, ny) < 3:
        nx = int(rng.integers(3, 7))
    if kind == "swangrid_hot":
        nx, ny = max(nx, 2), max(ny, 2)                  # a one-bin-wide grid has no "longer side" to cut across
        if nx == ny:
            ny = ny - 1 if ny > 2 else ny + 1            # parts are cut across the longer side: keep it unambiguous
    lon0, lat0 = round(float(rng.uniform(0, 300)), 2), round(float(rng.uniform(-60, 50)), 2)
    lons = np.round(lon0 + 0.25 * np.arange(nx), 6)
    lats = np.round(lat0 + 0.5 * np.arange(ny), 6)
    nt = 1 if kind == "swangrid_hot" else int(rng.integers(1, 4))

    def flat(lo, la):       # longitude-major listing
        return np.repeat(lo, len(la)), np.tile(la, len(lo))

    if kind == "swangrid_one":
        x, y = flat(lons, lats)
        p_, times, E, fv, dv = F.swan_series(rng, d, "grid.spec", f, th, x, y, t0, nt)
        key = "swan_grid|nx=%d|ny=%d|nt=%d" % (nx, ny, nt)
        out = reader(rec, "swan_grid", key, lambda: ws.read_swan(p_))
        backend_same(rec, rng, xr, "swan", p_, out)
        want = E.reshape(nt, nx, ny, nf, nd).transpose(0, 2, 1, 3, 4)          # (time, lat, lon, freq, dir)
    else:
        # cut across the longer side into 2-3 parts sharing one row / column with the next part
        along_lon = nx > ny
        n = nx if along_lon else ny
        nparts = 2 if n < 5 else int(rng.integers(2, 4))
        cuts = sorted(rng.choice(np.arange(1, n - 1), nparts - 1, replace=False)) if n > 2 else [1]
        bounds = [0] + [int(c) for c in cuts] + [n - 1]
        x, y = flat(lons, lats)
        _, times, E, fv, dv = F.swan_series(rng, d, "whole.tmp", f, th, x, y, t0, 1)
        os.remove(os.path.join(d, "whole.tmp"))
        whole = E.reshape(1, nx, ny, nf, nd)
        paths, prev_last = [], False
        for k in range(len(bounds) - 1):
            a, b = bounds[k], bounds[k + 1]                 # part k holds rows a..b inclusive; row b is shared with part k+1
            sl = slice(a, b + 1)
            plo, pla = (lons[sl], lats) if along_lon else (lons, lats[sl])
            part = (whole[:, sl] if along_lon else whole[:, :, sl]).copy()
            # the shared row is computed by one of the two parts only; the other holds zeros there
            if k + 1 < len(bounds) - 1 and rng.random() < 0.5:
                if along_lon:
                    part[:, -1] = 0.0
                else:
                    part[:, :, -1] = 0.0
                mine_last = False
            else:
                mine_last = True
            if k > 0 and prev_last:
                if along_lon:
                    part[:, 0] = 0.0
                else:
                    part[:, :, 0] = 0.0
            prev_last = mine_last
            px, py = flat(plo, pla)
            paths.append(F.swan_fixed(d, "hot-%03d.hot" % (k + 1), fv, dv, px, py, t0, part.reshape(1, len(px), nf, nd)))
        key = "swan_hot|nx=%d|ny=%d|parts=%d|cut=%s" % (nx, ny, len(paths), "lon" if along_lon else "lat")
        hot = __import__("wavespectra.input.swan", fromlist=["read_hotswan"]).read_hotswan
        arg = list(rng.permutation(paths)) if rng.random() < 0.5 else os.path.join(d, "hot-*.hot")
        out = reader(rec, "swan_grid", key, lambda: hot(arg))
        want = whole.transpose(0, 2, 1, 3, 4)
    if out is None:
        return
    if not times_ok(rec, "swan_grid", key, out, times):
        return
    lo_, la_ = np.asarray(out["lon"].values, dtype="float64"), np.asarray(out["lat"].values, dtype="float64")
    if lo_.shape != lons.shape or la_.shape != lats.shape or np.max(np.abs(lo_ - lons)) > 1e-9 or np.max(np.abs(la_ - lats)) > 1e-9:
        dup = len(np.unique(lo_)) < lo_.size or len(np.unique(la_)) < la_.size
        # defect 39 (fixed in repo a2264a6): read_hotswan kept the row / column two parts share in both of them
        rec.bad("swan_grid", key, {"lon_read": lo_, "lon_file": lons, "lat_read": la_, "lat_file": lats},
                "hotswan-shared-row-returned-twice" if dup and kind == "swangrid_hot" else "grid-axes-differ:swan")
        return
    fo, do_ = np.asarray(out["freq"].values, dtype="float64"), np.asarray(out["dir"].values, dtype="float64")
    if fo.shape != fv.shape or do_.shape != dv.shape or np.max(np.abs(fo - fv)) > 1e-12 or np.max(np.abs(do_ - dv)) > 1e-9:
        rec.bad("swan_grid", key, {"freq_read": fo, "dir_read": do_}, "spectral-axes-differ:swan_grid")
        return
    got = out["efth"].transpose("time", "lat", "lon", "freq", "dir").values
    if got.shape != want.shape:
        rec.bad("swan_grid", key, {"shape_read": got.shape, "shape_file": want.shape}, "shape-differs:swan_grid")
        return
    ok, worst = close(got, want, 1e-9, atol=1e-300)
    if ok:
        rec.ok("swan_grid", key)
        rec.note("swan_hot_parts_merged" if kind == "swangrid_hot" else "swan_gridded_file")
        return
    # where did each position's spectrum come from?  (diagnosis for the replay)
    moved = bool(np.allclose(np.sort(got.reshape(-1)), np.sort(want.reshape(-1)), rtol=1e-9))
    rec.bad("swan_grid", key, {"worst_over_tol": worst, "same_values_at_other_positions": moved,
                               "hs_like_read": got.sum((-1, -2))[0], "hs_like_file": want.sum((-1, -2))[0]},
            "grid-spectra-at-wrong-position-or-wrong:swan_" + ("hot" if kind == "swangrid_hot" else "grid"))


def do_xwaves(rec, rng, ws, xr, d, kind):
    paths, t = F.xwaves(rng, d)
    key = "xwaves|nt=%d" % len(t["time"])
    out = reader(rec, "xwaves", key, lambda: ws.read_xwaves(paths[0]))
    backend_same(rec, rng, xr, "xwaves", paths[0], out)
    if out is not None:
        g_ = t64(out["time"].values, "s")
        if g_.shape == np.shape(t["time"]) and np.array_equal(g_, t64(t["time"], "s")) and not np.array_equal(g_, np.sort(g_)):
            # defect 38 (fixed in repo 149d435): records returned in file order
            rec.bad("xwaves", key, {"times_read": g_.astype(str)}, "xwaves-records-not-sorted-by-time")
            return
    if out is None or not times_ok(rec, "xwaves", key, out, t["time"]):
        return
    fo, do_ = np.asarray(out["freq"].values, dtype="float64"), np.asarray(out["dir"].values, dtype="float64")
    if not np.allclose(fo, t["freq"], rtol=1e-15) or not np.allclose(do_, t["dir"]):
        rec.bad("xwaves", key, {"freq_read": fo}, "coordinates-differ:xwaves")
        return
    o = order_of(t["time"])
    if not np.array_equal(o, np.arange(len(o))):
        rec.note("xwaves_records_not_chronological_in_file")
    ok, worst = close(out["efth"].transpose("time", "freq", "dir").values, t["E"][o], 1e-12)
    (rec.ok("xwaves", key) if ok else rec.bad("xwaves", key, {"worst_over_tol": worst}, "densities-differ:xwaves"))
