"""C02: peak parameters are taken at the true spectral peak (reference-model monitor)."""
import numpy as np

from vf import gen
from vf.cmp import close, circ_diff, vals
from vf.oracle import integrals as I
from vf.oracle import peaks as P

SHAPES = ["unimodal", "unimodal", "peak_low", "peak_top", "peak_alpha1", "multimodal", "flat_top",
          "mono_up", "mono_down", "zeros", "noise", "equal_peaks", "edge_max"]


def shape1d(rng, nf, shape):
    """1-D profile with a designed peak structure (values exactly representable in float32)."""
    e = np.zeros(nf)
    if shape == "zeros":
        return e
    if shape == "noise":
        return np.round(rng.random(nf) * 1000) / 8.0
    if shape == "mono_up":
        return np.cumsum(rng.integers(1, 9, nf)).astype(float)
    if shape == "mono_down":
        return np.cumsum(rng.integers(1, 9, nf)).astype(float)[::-1].copy()

    def bump(ip, amp, w):
        x = np.arange(nf)
        return np.round(amp * np.exp(-0.5 * ((x - ip) / w) ** 2) * 64) / 64.0

    if shape == "unimodal":
        ip = int(rng.integers(1, nf - 1))
    elif shape == "peak_low":
        ip = 1
    elif shape == "peak_top":
        ip = nf - 2
    elif shape == "peak_alpha1":
        ip = int(rng.integers(max(1, nf - 5), nf - 1))
    else:
        ip = int(rng.integers(1, nf - 1))
    w = float(rng.uniform(0.6, 3.0))
    e = bump(ip, float(rng.uniform(1, 50)), w)
    if shape == "multimodal":
        for _ in range(int(rng.integers(1, 4))):
            e = e + bump(int(rng.integers(1, nf - 1)), float(rng.uniform(1, 50)), float(rng.uniform(0.5, 2)))
    elif shape == "flat_top" and nf >= 4:
        ip = min(ip, nf - 3)
        e = bump(ip, 20.0, w)
        e[ip + 1] = e[ip]          # a plateau of two equal bins is not a strict local maximum
        e[ip + 2:] = np.minimum(e[ip + 2:], e[ip] / 2)
        if rng.random() < 0.5 and ip >= 3:
            e[ip - 2] = e[ip] / 4 + e[ip - 3] + e[ip - 1]  # maybe a lower genuine peak elsewhere
    elif shape == "equal_peaks" and nf >= 5:
        e = np.zeros(nf)
        a, b = sorted(rng.choice(np.arange(1, nf - 1), 2, replace=False))
        if b - a >= 2:
            e[a] = e[b] = 8.0
            e[a - 1] = 1.0
    elif shape == "edge_max":
        # largest value on the first or last bin (not an interior peak) plus a smaller interior peak
        e = e + 0.0
        if rng.random() < 0.5:
            e[0] = e.max() * 2 + 1
            if nf > 2:
                e[1] = min(e[1], e[0] / 4)
        else:
            e[-1] = e.max() * 2 + 1
    return e


def spread2d(rng, e, th, kind):
    """Distribute a 1-D profile over directions so that row sums reproduce e exactly enough
    (weights are multiples of 1/64; identical weights on every row unless kind == 'vary')."""
    nd = len(th)
    if kind == "same":
        w = rng.integers(0, 9, nd).astype(float)
        if w.sum() == 0:
            w[rng.integers(nd)] = 1
        W = np.tile(w, (e.size, 1))
    else:
        W = rng.integers(0, 9, (e.size, nd)).astype(float)
        W[W.sum(1) == 0, 0] = 1
    return e[:, None] * W


def run(ctx):
    import xarray as xr
    import wavespectra  # noqa

    for i, rng in ctx.cases("peaks", ctx.n(800, 30000)):
        one(ctx, rng, xr)


def one(ctx, rng, xr):
    rec = ctx.rec
    nf = int(rng.choice([3, 4, 5, 6, 8, 11, 16, 25, 32]))
    fdt = str(rng.choice(["float64", "float32"]))
    f, fm = gen.freq_grid(rng, nf=nf, dtype=fdt)
    th, dd, dmeta = gen.dir_grid(rng, nd=int(rng.choice([2, 3, 4, 8, 12, 24, 36])))
    names, sizes = gen.lead_dims(rng, nlead=int(rng.choice([0, 0, 1, 2])), maxsize=3)
    npos = int(np.prod(sizes)) if sizes else 1
    edt = str(rng.choice(["float64", "float32"]))
    shapes, A = [], []
    for _ in range(npos):
        sh = str(rng.choice(SHAPES))
        e = shape1d(rng, nf, sh)
        # energy level: exact powers of two down to nearly calm / ice-covered points (Hs of micrometres)
        E = spread2d(rng, e, th, str(rng.choice(["same", "vary"]))) * float(rng.choice([1.0, 0.125, 4.0, 1.0, 0.125, 4.0, 2.0 ** -20, 2.0 ** -30, 2.0 ** -40]))
        shapes.append(sh)
        A.append(E)
    A = np.array(A).reshape(tuple(sizes) + (nf, len(th)))
    da = gen.make_da(A, f, th, names, sizes, dtype=edt)
    if dmeta["full"] and len(th) > 2 and rng.random() < 0.35:
        # the same labelled spectra stored in WW3 order (descending, wrapping inside the axis), rolled or descending
        how = str(rng.choice(["rolled", "descending", "ww3"]))
        if how in ("descending", "ww3"):
            da = da.isel(dir=slice(None, None, -1))
        if how in ("rolled", "ww3"):
            da = da.roll(dir=int(rng.integers(1, len(th))), roll_coords=True)
        th = da.dir.values.astype("float64")
    Ein = da.values.astype("float64").reshape(npos, nf, len(th))
    f64 = da.freq.values.astype("float64")
    f32 = da.freq.values.astype("float32").astype("float64")   # the peak ufuncs document float32 freq
    permuted = bool(rng.random() < 0.3)
    if permuted:
        # the same labelled spectra held in another dimension order (records after freq, dir first, ...), stored that way
        od_ = [str(d_) for d_ in rng.permutation(list(da.dims))]
        da = da.transpose(*od_)
        da = da.copy(data=np.ascontiguousarray(da.values))
    acc = da.to_dataset(name="efth").spec if rng.random() < 0.5 else da.spec
    f32data = edt == "float32"
    base = "nf=%d|fam=%s|nd=%d|e=%s|f=%s|lead=%d%s" % (nf, fm["family"], len(th), edt, fdt, len(names), "|dims-permuted" if permuted else "")

    obs = {}

    def call(name, fn):
        try:
            obs[name] = vals(fn(), list(names)).reshape(npos)
        except Exception as e:
            obs[name] = e

    call("tp_smooth", lambda: acc.tp(smooth=True))
    call("tp", lambda: acc.tp(smooth=False))
    call("fp", lambda: acc.fp(smooth=False))
    call("fp_smooth", lambda: acc.fp(smooth=True))
    call("dpm", lambda: acc.dpm())
    call("dpspr", lambda: acc.dpspr())
    call("dp", lambda: acc.dp())
    call("alpha", lambda: acc.alpha(smooth=True))
    call("alpha_discrete", lambda: acc.alpha(smooth=False))
    call("gamma", lambda: acc.gamma(smooth=True, scaled=True))
    call("gamma_raw", lambda: acc.gamma(smooth=False, scaled=False))

    for p in range(npos):
        E = Ein[p]
        e1 = dd * E.sum(-1)
        scale = float(e1.max()) if e1.size else 0.0
        tol = (2e-6 if f32data else 1e-13) * scale * max(len(th), 4)
        ip, acceptable, amb = P.the_peak(e1, tol)
        key = "%s|%s|peak=%s" % (base, shapes[p], "none" if ip is None else ("1" if ip == 1 else ("n-%d" % (nf - 1 - ip) if nf - 1 - ip <= 4 else "mid")))
        detail0 = {"freq": f64, "dir": th, "E1d": e1, "ipeak_ref": ip, "shape": shapes[p], "position": p}

        def bad(op, o, r, mech=None, **kw):
            d = dict(detail0)
            d.update({"obs": o, "ref": r})
            d.update(kw)
            rec.bad(op, key, d, mech)

        def raised(op):
            v = obs[op]
            if isinstance(v, Exception):
                if p == 0:
                    mech = None
                    if isinstance(v, TypeError) and "subscriptable" in str(v) and op.startswith("alpha"):
                        mech = "alpha-one-frequency-window-typeerror"
                    bad(op, repr(v), "a value", mech)
                return True
            return False

        if amb:
            rec.skip("peak", "peak decided by differences within rounding")
            continue
        # ---------------- tp / fp (discrete) ------------------------------------------
        for op, fn in (("tp", lambda k: 1.0 / f32[k]), ("fp", lambda k: f32[k])):
            if raised(op):
                continue
            o = float(obs[op][p])
            if ip is None:
                (rec.ok(op, key) if np.isnan(o) else bad(op, o, "nan", "value-without-interior-peak"))
            else:
                if any(abs(o - fn(k)) <= 2e-6 * abs(fn(k)) for k in acceptable):
                    rec.ok(op, key, sample={"E1d": e1, "obs": o, "ipeak": ip})
                else:
                    bad(op, o, fn(ip))
        # ---------------- smooth tp / fp -----------------------------------------------
        for op, inv in (("tp_smooth", True), ("fp_smooth", False)):
            if raised(op):
                continue
            o = float(obs[op][p])
            if ip is None:
                (rec.ok(op, key) if np.isnan(o) else bad(op, o, "nan", "value-without-interior-peak"))
                continue
            good, anyc = False, False
            for k in acceptable:
                v32 = P.parabola_vertex(f32, e1, k)
                v64 = P.parabola_vertex(f64, e1, k)
                t = 2e-5 * abs(v32) + 4 * abs(v32 - v64)
                if t > 1e-3 * abs(v32):
                    continue
                anyc = True
                lo, hi = f32[k - 1], f32[k + 1]
                r = 1.0 / v32 if inv else v32
                tt = t / v32 ** 2 if inv else t
                oo = 1.0 / o if inv else o
                inside = lo < oo < hi
                if abs(o - r) <= tt and inside and lo < v32 < hi:
                    good = True
            if not anyc:
                rec.skip(op, "vertex ill-conditioned at float32 frequency resolution")
            elif good:
                rec.ok(op, key, sample={"obs": o, "ipeak": ip})
            else:
                bad(op, o, (1.0 / P.parabola_vertex(f32, e1, ip)) if inv else P.parabola_vertex(f32, e1, ip),
                    neighbours=[f32[ip - 1], f32[ip + 1]])
        # ---------------- dpm / dpspr ------------------------------------------------------------
        if not raised("dpm"):
            o = float(obs["dpm"][p])
            if ip is None:
                (rec.ok("dpm", key) if np.isnan(o) else bad("dpm", o, "nan", "value-without-interior-peak"))
            else:
                oks, cond, illc = False, False, False
                for k in acceptable:
                    r, R, tot = P.dir_moment_at(E[k], th)
                    if R <= 1e-4 * tot:
                        illc = True      # an acceptable (tied) peak whose mean direction is decided by rounding
                        continue
                    cond = True
                    t = 1e-4 + np.degrees((5e-6 if f32data else 1e-12) * tot / R) * 4
                    if circ_diff(o, r) <= t and 0 <= o <= 360:
                        oks = True
                if not cond or (not oks and illc and (np.isnan(o) or 0 <= o <= 360)):
                    rec.skip("dpm", "resultant near zero at the peak")
                elif oks:
                    rec.ok("dpm", key)
                else:
                    bad("dpm", o, P.dir_moment_at(E[ip], th)[0])
        if not raised("dpspr"):
            o = float(obs["dpspr"][p])
            if ip is None:
                (rec.ok("dpspr", key) if np.isnan(o) else bad("dpspr", o, "nan", "value-without-interior-peak"))
            else:
                oks, cond, floor = False, False, False
                for k in acceptable:
                    r, R, tot = P.dir_moment_at(E[k], th)
                    q = 1.0 - R / tot
                    if q < 2e-3:
                        floor = True      # an acceptable (tied) peak whose spread is at the cancellation floor
                        continue
                    cond = True
                    ref = np.degrees(np.sqrt(2 * q))
                    if abs(o - ref) <= (6e-3 if f32data else 1e-5) * ref:
                        oks = True
                if not cond or (not oks and floor and (np.isnan(o) or o < 4.0)):
                    rec.skip("dpspr", "spread near zero (cancellation)")
                elif oks:
                    rec.ok("dpspr", key)
                else:
                    r, R, tot = P.dir_moment_at(E[ip], th)
                    bad("dpspr", o, np.degrees(np.sqrt(2 * (1 - R / tot))))
        # ---------------- dp -------------------------------------------------------------------------
        if not raised("dp"):
            o = float(obs["dp"][p])
            ed = E.sum(0)
            if ed.max() <= 0:
                rec.skip("dp", "zero energy")
            else:
                srt = np.sort(ed)
                t = (2e-6 if f32data else 1e-13) * srt[-1] * nf
                winners = np.where(ed == ed.max())[0]
                if len(srt) > 1 and srt[-1] - srt[-2] <= t and srt[-1] != srt[-2]:
                    rec.skip("dp", "directional arg-max within rounding")
                elif any(abs(o - np.float32(th[w])) <= 1e-4 for w in winners):
                    rec.ok("dp", key)
                else:
                    bad("dp", o, float(th[winners[0]]), coords=th)
        # ---------------- alpha -----------------------------------------------------------------------
        for op, smooth in (("alpha", True), ("alpha_discrete", False)):
            if raised(op):
                continue
            o = float(obs[op][p])
            src = obs["fp_smooth" if smooth else "fp"]
            if isinstance(src, Exception):
                continue
            # the fit is defined at "that same peak": take the peak frequency from the reference
            if ip is None:
                (rec.ok(op, key) if np.isnan(o) else bad(op, o, "nan"))
                continue
            fpr = float(np.float32(P.parabola_vertex(f32, e1, ip))) if smooth else float(f32[ip])
            fpr = float(np.float32(1.0 / np.float32(1.0 / fpr))) if True else fpr
            a, margin = P.alpha_ref(e1, f32, fpr)
            if margin < 1e-4:
                rec.skip(op, "a frequency within rounding of the tail-window edge")
                continue
            if not np.isfinite(a) or abs(a) > 1e25:      # float32 intermediates (f**5, (2 pi)**4) overflow before the result does
                rec.skip(op, "tail-fit value beyond the float32 range of the documented result")
                continue
            if len(acceptable) > 1:
                rec.skip(op, "exactly equal peaks")
                continue
            npos_win = int(np.sum((f32 > 1.35 * fpr) & (f32 < 2 * fpr)))
            k2 = key + "|win=%s" % (npos_win if npos_win < 2 else "many")
            if abs(o - a) <= 5e-4 * abs(a) + 1e-30:
                rec.ok(op, k2, sample={"obs": o, "ref": a, "window": npos_win})
                rec.note("alpha_window_%s" % (npos_win if npos_win < 2 else "many"))
            else:
                rec.bad(op, k2, dict(detail0, obs=o, ref=a, fp=fpr, window=npos_win), None)
        # ---------------- gamma -----------------------------------------------------------------------
        hs = 4 * np.sqrt(I.m0_tail(e1, f64, True))
        for op, smooth, scaled in (("gamma", True, True), ("gamma_raw", False, False)):
            if raised(op):
                continue
            o = float(obs[op][p])
            if ip is None or hs <= 0:
                (rec.ok(op, key) if (o == 1.0 or np.isnan(o)) else bad(op, o, 1.0))
                continue
            if len(acceptable) > 1:
                rec.skip(op, "exactly equal peaks")
                continue
            fpr = P.parabola_vertex(f32, e1, ip) if smooth else float(f32[ip])
            ref = P.gamma_ref(e1[ip], hs, fpr, scaled)
            if abs(o - ref) <= 2e-4 * abs(ref):
                rec.ok(op, key, sample={"obs": o, "ref": ref})
            else:
                alt = P.gamma_ref(e1.max(), hs, fpr, scaled)
                mech = "gamma-uses-global-maximum" if (e1.max() != e1[ip] and abs(o - alt) <= 2e-4 * abs(alt)) else None
                bad(op, o, ref, mech, hs=hs, fp=fpr)
