"""C01: integrated parameters equal their defining integrals (reference-model monitor)."""
import numpy as np

from vf import gen
from vf.cmp import close, circ_close, rtol_for, vals, circ_diff
from vf.oracle import integrals as I


def _lead(x, names):
    """Leading dims order for transposing a result."""
    return [d for d in names if d in x.dims]


def run(ctx):
    import xarray as xr
    import wavespectra  # noqa
    from wavespectra.core import utils, npstats

    rec = ctx.rec
    for i, rng in ctx.cases("stats", ctx.n(480, 12000)):
        one_dataset(ctx, rng, xr)
    for i, rng in ctx.cases("dispersion", ctx.n(160, 4000)):
        dispersion(ctx, rng, xr, utils)
    for i, rng in ctx.cases("npstats", ctx.n(320, 8000)):
        twins(ctx, rng, npstats)
    for i, rng in ctx.cases("zero_hz", ctx.n(96, 2000)):
        zero_hz(ctx, rng, xr)
    for i, rng in ctx.cases("narrow_beam", ctx.n(96, 2000)):
        narrow_beam(ctx, rng, xr)


def zero_hz(ctx, rng, xr):
    """Frequency grids whose first bin is exactly 0 Hz (FFT-type axes) with energy in that bin: the moments,
    heights and mean periods are still the defining sums (f**0 == 1 also at f == 0)."""
    rec = ctx.rec
    nf = int(rng.choice([3, 5, 9, 17, 33]))
    f = np.linspace(0.0, float(rng.choice([0.25, 0.333, 0.5, 1.0])), nf)
    th, dd, dmeta = gen.dir_grid(rng, nd=int(rng.choice([1, 4, 12, 24])), full=True)
    names, sizes = gen.lead_dims(rng, nlead=int(rng.choice([0, 1])), maxsize=3)
    A, classes = gen.stack_spectra(rng, f, th, sizes, cls=str(rng.choice(["noise", "multimodal", "plateau"])), distinct=False)
    A[..., 0, :] = A[..., 0, :] + float(rng.uniform(0.05, 1.0)) * max(float(A.max()), 1e-3)     # energy at 0 Hz
    edt = str(rng.choice(["float64", "float32"]))
    da = gen.make_da(A, f, th, names, sizes, dtype=edt)
    E = da.values.astype("float64")
    e1 = I.e1d(E, dd, True)
    rt = 2e-5 if edt == "float32" else 1e-10
    acc = da.to_dataset(name="efth").spec if rng.random() < 0.5 else da.spec
    key = "nf=%d|nd=%d|%s|lead=%d|fmax=%g" % (nf, len(th), edt, len(names), f[-1])
    m = {n: I.momf(e1, f, n) for n in (0, 1, 2)}
    refs = {"momf0": m[0], "momf1": m[1], "momf2": m[2], "hs_notail": 4 * np.sqrt(m[0]), "hrms_notail": np.sqrt(8 * m[0]),
            "tm01": m[0] / m[1], "tm02": np.sqrt(m[0] / m[2])}
    calls = {"momf0": lambda: acc.momf(0), "momf1": lambda: acc.momf(1), "momf2": lambda: acc.momf(2),
             "hs_notail": lambda: acc.hs(tail=False), "hrms_notail": lambda: acc.hrms(tail=False), "tm01": lambda: acc.tm01(), "tm02": lambda: acc.tm02()}
    for op, fn in calls.items():
        try:
            r = fn()
            o = vals(r, list(names))
        except Exception as e:
            rec.bad("zero_hz:" + op, key, {"raised": repr(e)[:300], "freq": f}, None)
            continue
        ok, worst = close(o, refs[op], rt, 0.0)
        if ok:
            rec.ok("zero_hz:" + op, key)
        else:
            rec.bad("zero_hz:" + op, key, {"obs": o, "ref": refs[op], "worst_over_tol": worst, "freq": f, "dir": th, "E1d": e1}, "zero-frequency-bin-mishandled")


def narrow_beam(ctx, rng, xr):
    """Nearly unidirectional float64 spectra (a swell one bin wide with a little energy in the neighbouring bins, or a beam
    one or two bins wide on a fine grid): spreads of hundredths of a degree to a few degrees are small but well conditioned
    in double precision (1 - r is many orders above rounding), so dspr and dm are still decided against their integrals."""
    rec = ctx.rec
    f, fm = gen.freq_grid(rng, nf=int(rng.choice([3, 6, 12])), dtype="float64")
    nd = int(rng.choice([8, 24, 36, 72, 180, 360]))
    th, dd, dmeta = gen.dir_grid(rng, nd=nd, full=True)
    names, sizes = gen.lead_dims(rng, nlead=int(rng.choice([0, 1])), maxsize=3)
    n = int(np.prod(sizes)) if sizes else 1
    A = np.zeros((n, len(f), nd))
    for j in range(n):
        c = int(rng.integers(nd))
        A[j, :, c] = rng.random(len(f)) + 0.05
        leak = 10 ** rng.uniform(-5.0, -1.0)
        for side in (-1, 1):
            if rng.random() < 0.8:
                A[j, :, (c + side) % nd] = leak * rng.random() * A[j, :, c]
        A[j] *= 10 ** rng.uniform(-2, 1)
    A = A.reshape(tuple(sizes) + (len(f), nd))
    da = gen.make_da(A, f, th, names, sizes, dtype="float64")
    if rng.random() < 0.3:
        da = da.roll(dir=int(rng.integers(1, nd)), roll_coords=True)
    E = da.values.astype("float64")
    thv = da.dir.values.astype("float64")
    acc = da.to_dataset(name="efth").spec if rng.random() < 0.5 else da.spec
    key = "nd=%d|nf=%d|lead=%d" % (nd, len(f), len(names))
    refsp, q = I.dspr(E, f.astype("float64"), thv, dd)
    refdm, res = I.dm(E, f.astype("float64"), thv, dd, weighted=False)
    try:
        o = vals(acc.dspr(), list(names))
        od = vals(acc.dm(), list(names))
    except Exception as e:
        rec.bad("narrow_beam:dspr", key, {"raised": repr(e)[:300]}, None)
        return
    # rounding of r is ~1e-14 here (sums of at most a few thousand terms of one sign); relative error of dspr ~ 1e-14 / (2 q)
    cond = q > 1e-8
    if not np.any(cond):
        rec.skip("narrow_beam:dspr", "ill-conditioned")
        return
    ok, worst = close(np.where(cond, o, 0.0), np.where(cond, refsp, 0.0), 1e-5, 0.0)
    band = "q<1e-5" if float(np.min(q[cond])) < 1e-5 else "q>=1e-5"
    if ok:
        rec.ok("narrow_beam:dspr", key + "|" + band, sample={"obs": np.asarray(o).ravel()[:3], "ref": np.asarray(refsp).ravel()[:3]})
        rec.note("narrow_beam_spread_below_quarter_degree" if band == "q<1e-5" else "narrow_beam_spread_above_quarter_degree")
    else:
        rec.bad("narrow_beam:dspr", key + "|" + band, {"obs": o, "ref": refsp, "one_minus_r": q, "worst_over_tol": worst, "dir": thv}, "narrow-spread-not-the-integral")
    okd, worstd = circ_close(od, refdm, np.full(np.shape(refdm), 1e-7))
    (rec.ok("narrow_beam:dm", key) if okd else rec.bad("narrow_beam:dm", key, {"obs": od, "ref": refdm, "worst_over_tol": worstd, "dir": thv}, "narrow-beam-mean-direction-wrong"))


# ---------------------------------------------------------------------------
def one_dataset(ctx, rng, xr):
    rec = ctx.rec
    fdt = str(rng.choice(["float64", "float64", "float32"]))
    edt = str(rng.choice(["float64", "float32"]))
    f, fm = gen.freq_grid(rng, dtype=fdt)
    oned_input = rng.random() < 0.12
    if oned_input:
        th, dd, dmeta = None, 1.0, {"nd": 0, "full": True, "d0": "1d"}
    else:
        th, dd, dmeta = gen.dir_grid(rng)
    names, sizes = gen.lead_dims(rng, maxsize=3)
    dt_s = int(rng.choice([600, 1800, 3600, 10800]))
    cls = None if rng.random() < 0.7 else "zeros"
    if th is None:
        A, classes = gen.stack_spectra(rng, f, np.array([0.0]), sizes, cls=cls)
        A = A[..., 0]
    else:
        A, classes = gen.stack_spectra(rng, f, th, sizes, cls=cls)
    if rng.random() < 0.15:
        # millimetre sea states either side of the documented 1 mm mask of the spectral width
        flat = A.reshape((-1,) + A.shape[len(sizes):])
        for j in range(flat.shape[0]):
            m0a = float(flat[j].sum()) * (dd if th is not None else 1.0) * float(np.mean(np.gradient(f.astype("float64"))) if len(f) > 1 else 1.0)
            if m0a > 0 and rng.random() < 0.7:
                flat[j] *= (10 ** rng.uniform(-3.5, -2.0) / 4.0) ** 2 / m0a
        A = flat.reshape(A.shape)
    da = gen.make_da(A, f, th, names, sizes, dtype=edt, dt_s=dt_s)
    if th is not None and dmeta["full"] and len(th) > 2 and rng.random() < 0.3:
        # the circle may start anywhere: same labels stored from another starting direction (wrapping through 360)
        k = int(rng.choice([1, len(th) - 1, int(rng.integers(1, len(th)))]))
        da = da.roll(dir=k, roll_coords=True)
        th = da.dir.values.astype("float64")
        dmeta = dict(dmeta, d0=dmeta["d0"] + ":rolled")
    E = da.values.astype("float64")          # what the library was given (after the dtype cast)
    f64 = da.freq.values.astype("float64")
    rt = rtol_for(da, da.freq)
    ds = da.to_dataset(name="efth")
    use_ds = rng.random() < 0.5
    acc = ds.spec if use_ds else da.spec
    key = "fam=%s|nf=%d|side=%s|nd=%d|full=%s|d0=%s|e=%s|f=%s|lead=%d|%s" % (
        fm["family"], fm["nf"], fm["side"], dmeta["nd"], dmeta["full"], dmeta["d0"], edt, fdt, len(names),
        "+".join(sorted(set(classes)))[:60])
    has_dir = th is not None
    e1 = I.e1d(E, dd, has_dir)
    df = I.df_ref(f64)
    lead = list(names)

    def get(x, extra=()):
        return vals(x, lead + list(extra))

    tiny = 1e-36 if rt > 1e-6 else 0.0   # float32 results underflow below ~1e-38

    def chk(op, obs, ref, rtol=rt, atol=tiny, scale=None, mechfn=None, cond=None):
        if cond is not None and not np.all(cond):
            # ill-conditioned positions are excluded, the rest still decided
            obs = np.where(cond, obs, 0.0)
            ref = np.where(cond, ref, 0.0)
            if not np.any(cond):
                rec.skip(op, "ill-conditioned")
                return
        ok, worst = close(obs, ref, rtol, atol, scale)
        if ok:
            rec.ok(op, key, sample={"obs": np.asarray(obs).ravel()[:3], "ref": np.asarray(ref).ravel()[:3]})
        else:
            mech = mechfn(obs) if mechfn else None
            rec.bad(op, key, {"obs": obs, "ref": ref, "worst_over_tol": worst, "rtol": rtol,
                              "freq": f64, "dir": th, "dd": dd, "efth_dtype": edt,
                              "via": "Dataset" if use_ds else "DataArray"}, mech)

    def call(op, fn):
        try:
            return fn()
        except Exception as e:  # raising on a valid spectrum is itself an observation
            rec.bad(op, key, {"raised": repr(e), "freq": f64, "dir": th}, None)
            return None

    m0nt = (e1 * df).sum(-1)
    m0t = I.m0_tail(e1, f64, True)
    pos = m0nt > 0
    # float32 arithmetic on products of moments under/overflows for variances below ~1e-10 m2
    rangeok = (m0nt > 1e-10) if rt > 1e-6 else np.ones_like(pos)

    # --- heights ------------------------------------------------------------
    for tail in (True, False):
        m = m0t if tail else m0nt
        r = call("hs", lambda: acc.hs(tail=tail))
        if r is not None:
            chk("hs", get(r), 4 * np.sqrt(m))
        r = call("hrms", lambda: acc.hrms(tail=tail))
        if r is not None:
            chk("hrms", get(r), np.sqrt(8 * m))
    # --- oned / to_energy -----------------------------------------------------
    r = call("oned", lambda: acc.oned())
    if r is not None:
        chk("oned", get(r, ["freq"]), e1, scale=np.max(e1, axis=-1, keepdims=True))
    r = call("to_energy", lambda: acc.to_energy())
    if r is not None:
        if has_dir:
            chk("to_energy", get(r, ["freq", "dir"]), E * df[:, None] * dd)
        else:
            chk("to_energy", get(r, ["freq"]), E * df)
    # --- frequency moments and periods -----------------------------------------
    mom = {n: I.momf(e1, f64, n) for n in range(5)}
    n = int(rng.integers(0, 5))
    r = call("momf", lambda: acc.momf(n))
    if r is not None:
        chk("momf", get(r), mom[n])
    with np.errstate(all="ignore"):
        r = call("tm01", lambda: acc.tm01())
        if r is not None:
            chk("tm01", get(r), mom[0] / mom[1])
        r = call("tm02", lambda: acc.tm02())
        if r is not None:
            chk("tm02", get(r), np.sqrt(mom[0] / mom[2]))
        # spectral widths (differences of nearly equal moments are ill conditioned)
        q = 1.0 - mom[2] ** 2 / (mom[0] * mom[4])
        ref = np.sqrt(np.maximum(q, 0))
        ref = np.where(ref >= 0.001, ref, 1.0)
        r = call("swe", lambda: acc.swe())
        if r is not None:
            chk("swe", get(r), ref, rtol=rt * 300, cond=pos & rangeok & (q > 2e-3))
        q = mom[0] * mom[2] / mom[1] ** 2 - 1.0
        ref = np.sqrt(np.maximum(q, 0))
        hsref = 4 * np.sqrt(m0t)
        r = call("sw", lambda: acc.sw())
        if r is not None:
            chk("sw", get(r), np.where(hsref >= 0.001, ref, np.nan), rtol=rt * 300,
                cond=((rangeok & (q > 2e-3)) | ~pos) & (np.abs(hsref - 0.001) > 1e-5))
        # gw (docs/construction.rst): sqrt(m0/Tz^2 - m0^2/Tm^2), m0 = (Hs/4)^2 with the tail
        a = m0t / (mom[0] / mom[2])
        b = m0t ** 2 / (mom[0] / mom[1]) ** 2
        q = a - b
        r = call("gw", lambda: acc.gw())
        if r is not None:
            cond = (rangeok & (np.abs(q) > 1e-2 * np.maximum(np.abs(a), np.abs(b)))) | ~pos
            chk("gw", get(r), np.where(q >= 0, np.sqrt(np.abs(q)), np.nan) + np.where(pos, 0, np.nan),
                rtol=rt * 100, cond=cond)
        r = call("goda", lambda: acc.goda())
        if r is not None:
            # float32 spectra below ~1e-15 m2/Hz square to denormals: outside float32's range
            chk("goda", get(r), I.goda(e1, f64), cond=pos & rangeok & ((e1.max(-1) > 1e-12) | (rt < 1e-6)))
    # --- hmax ---------------------------------------------------------------------
    with np.errstate(all="ignore"):
        tm02 = np.sqrt(mom[0] / mom[2])
        if "time" in names and sizes[names.index("time")] > 1:
            x = dt_s / tm02
            N = np.round(x)
            kk = np.sqrt(0.5 * np.log(N))
            cond = (np.abs(x - np.floor(x) - 0.5) > 1e-4) & (N >= 1) & pos
        else:
            kk = 1.86
            cond = np.ones_like(m0t, dtype=bool)
        r = call("hmax", lambda: acc.hmax())
        if r is not None:
            chk("hmax", get(r), kk * 4 * np.sqrt(m0t), cond=cond)
    # --- slope -----------------------------------------------------------------------
    depth = float(10 ** rng.uniform(-2, 3.5))
    r = call("mss", lambda: acc.mss())
    if r is not None:
        chk("mss", get(r), I.mss(e1, f64, I.k_deep(f64)))
    r = call("mss_depth", lambda: acc.mss(depth=depth))
    if r is not None:
        chk("mss_depth", get(r), I.mss(e1, f64, I.k_exact(f64, depth)), rtol=2.5e-3)
    # --- celerity / wavelength from the accessor ------------------------------------------
    r = call("celerity_deep", lambda: acc.celerity())
    if r is not None:
        chk("celerity_deep", vals(r), 1.56 / f64, rtol=rtol_for(da.freq))
    r = call("wavelen_deep", lambda: acc.wavelen())
    if r is not None:
        chk("wavelen_deep", vals(r), 1.56 / f64 ** 2, rtol=rtol_for(da.freq))
    kx = I.k_exact(f64, depth)
    r = call("celerity_depth", lambda: acc.celerity(depth=depth))
    if r is not None:
        chk("celerity_depth", vals(r), 2 * np.pi * f64 / kx, rtol=1e-3)
    r = call("wavelen_depth", lambda: acc.wavelen(depth=depth))
    if r is not None:
        chk("wavelen_depth", vals(r), 2 * np.pi / kx, rtol=1e-3)

    if not has_dir:
        return
    # --- directional statistics ----------------------------------------------------------------
    eps = 1e-12 if rt < 1e-6 else 5e-6
    refdm, R = I.dm(E, f64, th, dd, True)
    with np.errstate(all="ignore"):
        tol = np.degrees(eps * m0nt / R) * 4 + 1e-9
    cond = pos & (tol < 0.5)

    def dm_mech(obs):
        # defect model: the moments are summed over frequency without df. Where that unweighted
        # resultant vanishes (exact cancellation, e.g. integer-valued spectra on two opposite
        # directions) the model predicts an arbitrary direction, so any observation is consistent
        alt, R2 = I.dm(E, f64, th, dd, False)
        defined = R2 > 1e-6 * dd * E.sum((-1, -2))
        c = cond & defined
        if (cond & ~defined).any() or c.any():
            if np.all(circ_diff(obs, alt)[c] <= np.maximum(tol[c], 1e-3)):
                return "dm-not-weighted-by-df"
        return None

    r = call("dm", lambda: acc.dm())
    if r is not None:
        obs = get(r)
        if not cond.any():
            rec.skip("dm", "resultant near zero")
        else:
            ok, worst = circ_close(np.where(cond, obs, 0), np.where(cond, refdm, 0), np.where(cond, tol, 1))
            rng_ok = np.all((obs[cond] >= 0) & (obs[cond] < 360))
            if ok and rng_ok:
                rec.ok("dm", key, sample={"obs": obs.ravel()[:3], "ref": refdm.ravel()[:3]})
            else:
                rec.bad("dm", key, {"obs": obs, "ref": refdm, "worst_over_tol": worst, "freq": f64, "dir": th,
                                    "in_range": bool(rng_ok)}, dm_mech(obs))
    refsp, q = I.dspr(E, f64, th, dd)
    r = call("dspr", lambda: acc.dspr())
    if r is not None:
        chk("dspr", get(r), refsp, rtol=rt * 300, cond=pos & (q > 2e-3))
    nmom = int(rng.integers(0, 3))
    r = call("momd", lambda: acc.momd(nmom))
    if r is not None:
        ms, mc = I.momd_per_freq(E, th, dd, nmom)
        chk("momd", get(r[0], ["freq"]), ms, scale=e1)
        chk("momd", get(r[1], ["freq"]), mc, scale=e1)
    th_m = float(rng.choice([0.0, 45.0, 180.0, float(rng.uniform(-180, 360))]))
    nm2 = int(rng.integers(0, 4))
    r = call("momd_theta", lambda: acc.momd(nm2, theta=th_m))
    if r is not None:
        ms, mc = I.momd_per_freq(E, th, dd, nm2, theta=th_m)
        chk("momd_theta", get(r[0], ["freq"]), ms, scale=e1)
        chk("momd_theta", get(r[1], ["freq"]), mc, scale=e1)
    ux, uy, us = I.stokes(E, f64, th, dd, I.k_deep(f64))
    for op, ref, kw in (("uss", us, {}), ("uss_x", ux, {}), ("uss_y", uy, {})):
        r = call(op, lambda: getattr(acc, op)(**kw))
        if r is not None:
            chk(op, get(r), ref, scale=us)
    # components along any axis: theta is the bearing of the x axis
    theta = float(rng.choice([0.0, 45.0, 180.0, 270.0, -30.0, float(rng.uniform(-360, 720))]))
    ux, uy, us = I.stokes(E, f64, th, dd, I.k_deep(f64), theta=theta)
    for op, ref in (("uss_x", ux), ("uss_y", uy)):
        r = call(op + "_theta", lambda: getattr(acc, op)(theta=theta))
        if r is not None:
            chk(op + "_theta", get(r), ref, scale=us)
    ux, uy, us = I.stokes(E, f64, th, dd, kx)
    for op, ref in (("uss", us), ("uss_x", ux), ("uss_y", uy)):
        r = call(op + "_depth", lambda: getattr(acc, op)(depth=depth))
        if r is not None:
            chk(op + "_depth", get(r), ref, rtol=1.5e-3, scale=us)
    # --- 1-D consistency: statistics of x.spec.oned() equal those of x ----------------------------
    x1 = call("oned", lambda: da.spec.oned())
    if x1 is not None:
        for op in ("hs", "hrms", "tm01", "tm02", "goda", "mss"):
            a = call("oned_consistency", lambda: getattr(x1.spec, op)())
            b = call("oned_consistency", lambda: getattr(da.spec, op)())
            if a is not None and b is not None:
                ok, worst = close(get(a), get(b), rt * 10)
                if ok:
                    rec.ok("oned_consistency", key + "|" + op)
                else:
                    rec.bad("oned_consistency", key + "|" + op, {"stat": op, "from_1d": get(a), "from_2d": get(b)}, None)


# ---------------------------------------------------------------------------
def dispersion(ctx, rng, xr, utils):
    rec = ctx.rec
    n = int(rng.integers(1, 30))
    f = 10 ** rng.uniform(np.log10(3e-3), np.log10(3.0), n)
    d = float(10 ** rng.uniform(-2.5, 4))      # flumes and swash depths of millimetres up to the abyss
    regime = "shallow" if np.median(I.k_exact(f, d) * d) < 0.3 else ("deep" if np.median(I.k_exact(f, d) * d) > 3 else "inter")
    key = "regime=%s|n=%d" % (regime, min(n, 5))
    kx = I.k_exact(f, d)
    resid = np.abs(I.G * kx * np.tanh(kx * d) - (2 * np.pi * f) ** 2) / (2 * np.pi * f) ** 2
    if resid.max() > 1e-9:
        rec.skip("wavenuma", "reference root did not converge")
        return
    arg = f if rng.random() < 0.5 else xr.DataArray(f, dims=["freq"], coords={"freq": f})
    for op, fn, ref in (
        ("wavenuma", lambda: utils.wavenuma(arg, d), kx),
        ("celerity", lambda: utils.celerity(arg, d), 2 * np.pi * f / kx),
        ("wavelen", lambda: utils.wavelen(arg, d), 2 * np.pi / kx),
        ("celerity_deep", lambda: utils.celerity(arg), 1.56 / f),
        ("wavelen_deep", lambda: utils.wavelen(arg), 1.56 / f ** 2),
    ):
        try:
            obs = np.asarray(fn())
        except Exception as e:
            rec.bad(op, key, {"raised": repr(e), "f": f, "depth": d}, None)
            continue
        ok, worst = close(obs, ref, 1e-3 if "deep" not in op else 1e-12)
        if ok:
            rec.ok(op, key, sample={"f": f[:3], "depth": d, "obs": obs[:3], "ref": ref[:3]})
        else:
            rec.bad(op, key, {"f": f, "depth": d, "obs": obs, "ref": ref, "worst_over_tol": worst}, None)


# ---------------------------------------------------------------------------
def twins(ctx, rng, npstats):
    """numpy twins used by the partitioning: hs (documented trapezoid + tail), mom1, dm."""
    rec = ctx.rec
    f, fm = gen.freq_grid(rng, nf=int(rng.choice([2, 3, 5, 9, 20, 33])))
    th, dd, dmeta = gen.dir_grid(rng, nd=int(rng.choice([2, 3, 4, 8, 12, 24, 36])))
    E, cls = gen.spectrum(rng, f, th)
    key = "fam=%s|nf=%d|side=%s|nd=%d|full=%s|%s" % (fm["family"], fm["nf"], fm["side"], dmeta["nd"], dmeta["full"], cls)
    tail = bool(rng.random() < 0.7)
    obs = npstats.hs(E, f, th, tail=tail)
    e = dd * E.sum(1)
    tot = 0.5 * np.sum(np.diff(f) * (e[1:] + e[:-1])) + (0.25 * e[-1] * f[-1] if (tail and f[-1] > 0.333) else 0.0)
    ok, worst = close(obs, 4 * np.sqrt(tot), 1e-9)
    (rec.ok if ok else lambda *a, **k: rec.bad("np_hs", key, {"obs": obs, "ref": 4 * np.sqrt(tot), "f": f, "dir": th, "E": E}, None))("np_hs", key)
    ms, mc = npstats.mom1(E, th)
    rs, rc = I.momd_per_freq(E, th, dd, 1)
    sc = dd * E.sum(1)
    ok = close(ms, rs, 1e-9, scale=sc)[0] and close(mc, rc, 1e-9, scale=sc)[0]
    (rec.ok if ok else lambda *a, **k: rec.bad("np_mom1", key, {"obs": [ms, mc], "ref": [rs, rc], "dir": th}, None))("np_mom1", key)
    # npstats.dm sums the per-frequency moments without df (documented array-level twin): compare
    # with the same unweighted directional integral
    ref, R = I.dm(E, f, th, dd, weighted=False)
    tot = E.sum()
    if tot > 0 and R > 1e-6 * dd * tot:
        obs = npstats.dm(E, th)
        tol = np.degrees(1e-12 * dd * tot / R) * 4 + 1e-9
        ok = circ_diff(obs, ref) <= tol and 0 <= obs < 360
        (rec.ok if ok else lambda *a, **k: rec.bad("np_dm", key, {"obs": obs, "ref": ref, "dir": th, "E": E}, None))("np_dm", key)
    else:
        rec.skip("np_dm", "resultant near zero")
