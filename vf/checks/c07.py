"""C07: dask-backed data gives the same results under any chunking and scheduler.

Differential monitor (chunked/scheduled result vs in-memory result; the call must succeed) plus
a native stress workload on the ASan+UBSan extension: threaded schedulers running watershed
partitions of different grid shapes at once (the routine's static buffers are re-allocated when
the shape changes). A per-thread trace of native calls is kept as evidence of interleaving."""
import sys
import threading
import time

import numpy as np

from vf import gen, ops as O
from vf.compare import signed_scale, compare_op
from vf.checks.c05 import ties

CHUNKINGS = ["single", "ones", "uneven", "only_freq", "only_dir", "only_lead", "auto"]
SCHEDS = [("synchronous", 1), ("threads", 1), ("threads", 2), ("threads", 4), ("threads", 8), ("threads", 16)]


def chunking(rng, x, kind):
    d = {}
    if kind == "single":
        d = {k: -1 for k in x.dims}
    elif kind == "ones":
        d = {k: 1 for k in x.dims}
    elif kind == "uneven":
        for k in x.dims:
            n = x.sizes[k]
            if n >= 3:
                a = int(rng.integers(1, n - 1))
                d[k] = (a, n - a)
            else:
                d[k] = -1
    elif kind == "only_freq":
        d = {k: (max(1, x.sizes[k] // 3) if k == "freq" else -1) for k in x.dims}
    elif kind == "only_dir":
        d = {k: (max(1, x.sizes[k] // 3) if k == "dir" else -1) for k in x.dims}
    elif kind == "only_lead":
        d = {k: (1 if k not in ("freq", "dir") else -1) for k in x.dims}
    else:
        d = {k: int(rng.integers(1, x.sizes[k] + 1)) for k in x.dims}
    return d


class Trace:
    """Python-level wrapper on the native entry point: evidence of interleaving only."""

    def __init__(self, specpart):
        self.orig = specpart.partition
        self.ev = []
        self.lock = threading.Lock()
        specpart.partition = self

    def __call__(self, spec, ihmax):
        tid = threading.get_ident()
        L = self.orig(spec, ihmax)
        with self.lock:
            self.ev.append((tid, spec.shape))
        return L

    def stats(self):
        ev, self.ev = self.ev, []
        sw = sum(1 for a, b in zip(ev, ev[1:]) if a[0] != b[0])
        sh = sum(1 for a, b in zip(ev, ev[1:]) if a[0] != b[0] and a[1] != b[1])
        return len(ev), len(set(e[0] for e in ev)), sw, sh


def run(ctx):
    import dask
    import xarray as xr
    import wavespectra  # noqa
    from wavespectra.partition import specpart

    tr = Trace(specpart)
    ops = O.build()
    names = list(ops)
    for i, rng in ctx.cases("chunking", ctx.n(240, 5000)):
        one(ctx, rng, xr, dask, ops, names)
    for i, rng in ctx.cases("combined", ctx.n(60, 1500)):
        combined(ctx, rng, xr, dask, ops)
    for i, rng in ctx.cases("fits", ctx.n(24, 600)):
        fits(ctx, rng, xr)
    for i, rng in ctx.cases("selection", ctx.n(60, 1500)):
        selection(ctx, rng, xr)
    for i, rng in ctx.cases("track", ctx.n(40, 1000)):
        track(ctx, rng, xr)
    for i, rng in ctx.cases("lazy_then_edit", ctx.n(160, 2500)):
        lazy_then_edit(ctx, rng, xr, ops)
    tr.stats()
    sys.setswitchinterval(1e-5)   # multiply GIL hand-offs between native calls
    for i, rng in ctx.cases("stress", ctx.n(32, 400)):
        stress(ctx, rng, xr, dask, tr)


def one(ctx, rng, xr, dask, ops, names):
    rec = ctx.rec
    ck = str(rng.choice(CHUNKINGS))
    tiny = ck == "ones"   # one element per chunk: keep the task graph small
    nf = int(rng.choice([3, 4, 5] if tiny else [3, 6, 9, 14]))
    f, fm = gen.freq_grid(rng, nf=nf)
    th, dd, dmeta = gen.dir_grid(rng, nd=int(rng.choice([4] if tiny else [4, 8, 12])), full=True, exact=True)
    lnames, lsizes = gen.lead_dims(rng, nlead=int(rng.choice([0, 1, 2, 2])), maxsize=2 if tiny else 4)
    A, classes = gen.stack_spectra(rng, f, th, lsizes, cls="multimodal")
    if lsizes and rng.random() < 0.5:
        # calm / land points and purely decaying tails (no interior peak) next to ordinary spectra: whether they share a
        # block with them depends on the chunking
        flat = A.reshape(-1, len(f), len(th))
        for j in rng.choice(flat.shape[0], size=min(flat.shape[0], int(rng.integers(1, 3))), replace=False):
            if rng.random() < 0.5:
                flat[j] = 0.0
            else:
                flat[j] = (np.sort(rng.random(len(f)))[::-1] + 0.1)[:, None] * (np.cos(np.radians(th - float(rng.uniform(0, 360))) / 2) ** 2 + 0.05)[None, :]
        A = flat.reshape(A.shape)
    dt = str(rng.choice(["float64", "float32"]))
    x = gen.make_da(A, f, th, lnames, lsizes, dtype=dt)
    aux = O.make_aux(rng, x, xr)
    if lnames and rng.random() < 0.25:
        # the same labelled data held in another dimension order (spectral dimensions first, dir before freq): which axis is
        # "the last one" then differs from the usual layout while the chunking is still described by dimension name
        od_ = [str(v_) for v_ in rng.permutation(list(x.dims))]
        x = x.transpose(*od_).copy()
        ck += "+transposed"
        rec.note("chunked_input_in_another_dimension_order")
    chunks = chunking(rng, x, ck.split("+")[0])
    xc = x.chunk(chunks)
    f32 = dt == "float32"
    chosen = list(rng.choice(names, size=ctx.n(7, 12), replace=False))
    for name in chosen:
        op = ops[name]
        if nf < op.min_nf:
            continue
        if (op.exact or op.peak or name in ("dp", "dm")) and ties(x, op):
            rec.skip(name, "discrete decision tied within rounding")
            continue
        try:
            R0 = op.fn(x, aux)
            R0 = R0.compute() if hasattr(R0, "compute") else R0
        except Exception as e:
            rec.skip(name, "in-memory call raised %s" % type(e).__name__)
            continue
        sched, nw = SCHEDS[int(rng.integers(len(SCHEDS)))]
        # which inputs are dask-backed: the spectra (default), spectra and forcing, or the forcing only
        backing = "spectra"
        xin, auxin = xc, aux
        if getattr(op, "needs_wind", False) and lnames:
            backing = str(rng.choice(["spectra", "spectra", "both", "forcing"]))
            if backing != "spectra":
                auxin = dict(aux)
                for k_ in ("wspd", "wdir", "dpt"):
                    auxin[k_] = aux[k_].chunk({d_: 1 for d_ in aux[k_].dims}) if aux[k_].dims else aux[k_]
            if backing == "forcing":
                xin = x
        key = "%s|chunks=%s:%s|%s|%s%d|lead=%d" % (name, ck, backing, dt, sched, nw, len(lnames))
        # a session in which the user has lowered dask's target block size ("array.chunk-size"): whatever dask would pick
        # for an automatic chunk is then far smaller than one spectrum's core dimensions
        import contextlib
        import dask
        small = rng.random() < 0.2
        cfg = dask.config.set({"array.chunk-size": str(rng.choice(["64B", "512B", "4KiB"]))}) if small else contextlib.nullcontext()
        if small:
            key += "|small-dask-block-size"
            rec.note("lowered_dask_block_size")
        try:
            with cfg:
                Rc = op.fn(xin, auxin)
                kw = {"scheduler": sched}
                if sched == "threads":
                    kw["num_workers"] = nw
                if isinstance(Rc, tuple):
                    Rc = tuple(r.compute(**kw) for r in Rc)
                else:
                    Rc = Rc.compute(**kw) if hasattr(Rc, "compute") else Rc
        except Exception as e:
            mech = "raises-on-chunked-input"
            if "core dimension" in str(e) or "consists of multiple chunks" in str(e):
                mech = "core-dim-not-rechunked"
            rec.bad(name, key, {"op": name, "chunks": {k: (list(v) if isinstance(v, tuple) else v) for k, v in chunks.items()},
                                "dims": x.dims, "sizes": dict(x.sizes), "raised": repr(e)[:400]}, mech)
            continue
        ok, det = compare_op(op, R0, Rc, f32, rtol=(2e-5 if (f32 or op.peak) else 1e-11), circ_atol=(0.05 if (f32 or op.peak) else 1e-8),
                             scale=signed_scale(op, x))
        if ok is None:
            rec.skip(name, "cancellation")
        elif ok:
            rec.ok(name, key, sample={"chunks": str(chunks), "scheduler": sched, "workers": nw})
        else:
            rec.bad(name, key, {"op": name, "chunks": str(chunks), "scheduler": sched, "workers": nw, "diff": det}, "chunked-result-differs")


def combined(ctx, rng, xr, dask, ops):
    """Lazy results of *different* datasets on the same grid (in-memory and chunked) evaluated in one
    dask computation must equal the results evaluated one by one (no graph-key collisions)."""
    rec = ctx.rec
    nf = int(rng.choice([5, 9, 14]))
    f, fm = gen.freq_grid(rng, nf=nf)
    th, dd, dmeta = gen.dir_grid(rng, nd=int(rng.choice([4, 8, 12])), full=True, exact=True)
    lnames, lsizes = gen.lead_dims(rng, nlead=1, maxsize=3)
    xs = []
    for k in range(int(rng.integers(2, 4))):
        A, _ = gen.stack_spectra(rng, f, th, lsizes, cls="multimodal")
        x = gen.make_da(A, f, th, lnames, lsizes)
        xs.append(x if rng.random() < 0.5 else x.chunk({lnames[0]: 1}))
    names = [n for n in ("tp", "tp_raw", "fp", "dpm", "dpspr", "alpha", "gamma", "dp", "hs", "tm01", "dm", "ptm3") if nf >= ops[n].min_nf]
    name = str(rng.choice(names))
    op = ops[name]
    aux = O.make_aux(rng, xs[0], xr)
    key = "combined|%s|n=%d|%s" % (name, len(xs), "+".join("dask" if x.chunks else "numpy" for x in xs))
    try:
        lazies = [op.fn(x, aux) for x in xs]
        single = [l.compute() if hasattr(l, "compute") else l for l in [op.fn(x, aux) for x in xs]]
        together = dask.compute(*lazies)
        diff = lazies[0] - lazies[1]
        diff = diff.compute() if hasattr(diff, "compute") else diff
    except Exception as e:
        rec.bad("combined", key, {"raised": repr(e)[:300]}, "combined-compute-raises")
        return
    for k, (a, b) in enumerate(zip(single, together)):
        ok, det = compare_op(op, a, b, False, rtol=1e-6, circ_atol=1e-3)
        if ok is False:
            rec.bad("combined", key, {"dataset": k, "diff": det}, "results-of-different-datasets-mixed-in-one-computation")
            return
    want = single[0] - single[1]
    if not np.allclose(np.nan_to_num(np.asarray(diff.values, dtype="float64")), np.nan_to_num(np.asarray(want.values, dtype="float64")), rtol=1e-6, atol=1e-9):
        rec.bad("combined", key, {"expression": "op(a) - op(b)", "got": diff.values, "want": want.values}, "results-of-different-datasets-mixed-in-one-computation")
        return
    rec.ok("combined", key)


def lazy_then_edit(ctx, rng, xr, ops):
    """A lazy result belongs to the data it was requested for: when the caller relabels or replaces coordinates of the
    same object afterwards and only then computes, the result is still that of the spectra as they were at the call."""
    rec = ctx.rec
    nf = int(rng.choice([5, 9]))
    f, fm = gen.freq_grid(rng, nf=nf)
    th, dd, dmeta = gen.dir_grid(rng, nd=int(rng.choice([8, 12])), full=True, exact=True)
    lnames, lsizes = gen.lead_dims(rng, nlead=int(rng.choice([1, 2])), maxsize=3)
    A, _ = gen.stack_spectra(rng, f, th, lsizes, cls="multimodal")
    x = gen.make_da(A, f, th, lnames, lsizes)
    aux = O.make_aux(rng, x, xr)
    if rng.random() < 0.4:      # kernels that receive the grid as an argument: the partition family
        name = str(rng.choice(["ptm1", "ptm2", "ptm3", "ptm4", "ptm5", "bbox", "hp01"]))
    else:
        name = str(rng.choice(["hs", "tm01", "dm", "dspr", "tp", "dpm", "dp", "smooth", "split", "split_dir", "rotate", "interp", "interp_freq", "stats", "uss_x", "mss", "goda", "oned", "alpha", "gamma", "dpspr"]))
    op = ops[name]
    if nf < op.min_nf or ((op.exact or op.peak or name in ("dp", "dm")) and ties(x, op)):
        rec.skip("lazy_then_edit", "not applicable / tied")
        return
    try:
        R0 = op.fn(x, aux)
        R0 = R0.compute() if hasattr(R0, "compute") else R0
    except Exception as e:
        rec.skip("lazy_then_edit", "in-memory call raised %s" % type(e).__name__)
        return
    xc = x.chunk({lnames[0]: 1})
    edit = str(rng.choice(["dir_relabelled", "freq_scaled", "dir_reversed_labels"]))
    key = "lazy_then_edit|%s|%s" % (name, edit)
    try:
        lazy = op.fn(xc, aux)
        if edit == "dir_relabelled":
            xc["dir"] = (xc.dir.values + 90.0) % 360.0
        elif edit == "freq_scaled":
            xc["freq"] = xc.freq.values * 1.5
        else:
            xc["dir"] = xc.dir.values[::-1].copy()
        R1 = lazy.compute(scheduler="synchronous") if hasattr(lazy, "compute") else lazy
    except Exception as e:
        rec.bad("lazy_then_edit", key, {"raised": repr(e)[:300]}, "lazy-result-fails-after-caller-edit")
        return
    f32 = False
    ok, det = compare_op(op, R0, R1, f32, rtol=(1e-5 if op.peak else 1e-12), circ_atol=(1e-3 if op.peak else 1e-9), scale=signed_scale(op, x))
    if ok is None:
        rec.skip("lazy_then_edit", "cancellation")
    elif ok:
        rec.ok("lazy_then_edit", key)
    else:
        rec.bad("lazy_then_edit", key, {"op": name, "edit": edit, "diff": det}, "lazy-result-follows-later-edits-of-the-caller-object")


def track(ctx, rng, xr):
    """ptm1_track with dask-backed spectra and / or forcing chunked along time, site or both: the call succeeds and
    partitions, identifiers and counts equal those of the in-memory call."""
    rec = ctx.rec
    f = np.linspace(0.04, 0.4, 9)
    th = np.arange(0, 360, 45.0)
    nt, ns = int(rng.integers(3, 8)), int(rng.integers(1, 3))
    A, _ = gen.stack_spectra(rng, f, th, [nt, ns], cls="multimodal")
    x = gen.make_da(A, f, th, ["time", "site"], [nt, ns])
    co = {"time": x.time, "site": x.site}
    w = xr.DataArray(rng.uniform(1, 20, (nt, ns)), dims=["time", "site"], coords=co)
    wd = xr.DataArray(rng.uniform(0, 360, (nt, ns)), dims=["time", "site"], coords=co)
    dp = xr.DataArray(np.full((nt, ns), 40.0), dims=["time", "site"], coords=co)
    which = str(rng.choice(["spectra", "forcing", "both"]))
    tch = int(rng.integers(1, nt))                       # at least two chunks along time
    ch = {"time": tch} if rng.random() < 0.7 else {"time": tch, "site": 1}
    xin = x.chunk(ch) if which in ("spectra", "both") else x
    if which in ("forcing", "both"):
        who = str(rng.choice(["wspd", "all"]))
        win = w.chunk(ch)
        wdin, dpin = (wd.chunk(ch), dp.chunk(ch)) if who == "all" else (wd, dp)
    else:
        who, win, wdin, dpin = "none", w, wd, dp
    sched, nw = SCHEDS[int(rng.integers(len(SCHEDS)))]
    key = "track|dask=%s|forcing=%s|chunks=%s|%s" % (which, who, "+".join(sorted(ch)), sched)
    try:
        R0 = x.spec.partition.ptm1_track(w, wd, dp, swells=2).compute()
    except Exception as e:
        rec.skip("track", "in-memory call raised %s" % type(e).__name__)
        return
    try:
        R1 = xin.spec.partition.ptm1_track(win, wdin, dpin, swells=2).compute(scheduler=sched, num_workers=nw)
    except Exception as e:
        rec.bad("track", key, {"raised": repr(e)[:400], "chunks": ch}, "chunked-call-raises")
        return
    same = all(np.array_equal(np.asarray(R0[v].transpose(*R1[v].dims).values), np.asarray(R1[v].values), equal_nan=R0[v].dtype.kind == "f") for v in ("efth", "part_id", "npart_id"))
    (rec.ok("track", key) if same else rec.bad("track", key, {"part_id_memory": R0["part_id"].values, "part_id_dask": R1["part_id"].values, "chunks": ch}, "chunked-result-differs"))


def selection(ctx, rng, xr):
    """Site selection on dask-backed station datasets whose variables are chunked alike or differently (efth by two
    times, wind by three, positions not at all): same stations, same values, no failure."""
    rec = ctx.rec
    nt, ns = int(rng.integers(3, 7)), int(rng.integers(3, 8))
    f = np.linspace(0.05, 0.4, 5)
    th = np.arange(0, 360, 90.0)
    E = rng.random((nt, ns, 5, 4)) + np.arange(ns)[None, :, None, None]
    lon = np.round(rng.uniform(100, 110, ns) * 8) / 8
    lat = np.round(rng.uniform(-40, -30, ns) * 8) / 8
    ds = xr.Dataset({"efth": (("time", "site", "freq", "dir"), E), "wspd": (("time", "site"), rng.uniform(0, 20, (nt, ns))),
                     "dpt": (("time", "site"), rng.uniform(10, 90, (nt, ns)))},
                    coords={"time": np.arange(nt), "site": np.arange(ns), "freq": f, "dir": th})
    ds["lon"] = (("site",), lon)
    ds["lat"] = (("site",), lat)
    layout = str(rng.choice(["uniform", "efth_only", "different", "sites"]))
    dc = ds.copy()
    if layout == "uniform":
        dc = ds.chunk({"time": 2})
    elif layout == "efth_only":
        dc["efth"] = ds["efth"].chunk({"time": 2})
    elif layout == "different":
        dc["efth"] = ds["efth"].chunk({"time": 2})
        dc["wspd"] = ds["wspd"].chunk({"time": 3})
        dc["dpt"] = ds["dpt"].chunk({"time": 1})
    else:
        dc = ds.chunk({"site": 1})
    method = str(rng.choice(["idw", "nearest", "bbox"]))
    qlon = [float(lon[0] + 0.25), float(lon[1] - 0.125)]
    qlat = [float(lat[0] + 0.125), float(lat[1] + 0.25)]
    kw = dict(method=method, tolerance=3.0)
    if method == "idw":
        kw["max_sites"] = 3
    key = "sel:%s|chunks=%s" % (method, layout)
    try:
        r0 = ds.spec.sel(qlon, qlat, **kw)
    except Exception as e:
        rec.skip("selection", "in-memory selection raised %s" % type(e).__name__)
        return
    try:
        sched, nw = SCHEDS[int(rng.integers(len(SCHEDS)))]
        kwc = {"scheduler": sched}
        if sched == "threads":
            kwc["num_workers"] = nw
        rc = dc.spec.sel(qlon, qlat, **kw).compute(**kwc)
    except Exception as e:
        rec.bad("selection", key, {"raised": repr(e)[:300], "layout": layout}, "raises-on-chunked-input")
        return
    bad = [v for v in r0.data_vars if not np.allclose(np.asarray(r0[v].values, dtype="float64"), np.asarray(rc[v].transpose(*r0[v].dims).values, dtype="float64"), rtol=1e-12, atol=0, equal_nan=True)]
    if bad or not np.array_equal(r0["lon"].values, rc["lon"].values):
        rec.bad("selection", key, {"variables_differ": bad, "layout": layout}, "chunked-result-differs")
    else:
        rec.ok("selection", key)


def fits(ctx, rng, xr):
    """fit_jonswap / fit_gaussian of slowly varying sea states (consecutive records alike): the fitted parameters must not
    depend on how the records are grouped into chunks or on the scheduler (evaluation order)."""
    from wavespectra.construct.frequency import jonswap
    rec = ctx.rec
    nt, ns = int(rng.integers(3, 7)), int(rng.integers(2, 5))
    f = 0.04 * 1.1 ** np.arange(22)
    th = np.arange(0.0, 360.0, 45.0)
    fp0, hs0, g0 = float(rng.uniform(0.08, 0.15)), float(rng.uniform(1, 4)), float(rng.uniform(1.2, 4))
    A = np.zeros((nt, ns, len(f), len(th)))
    for it in range(nt):
        for js in range(ns):
            fp = fp0 * (1 + 0.02 * it + 0.015 * js)
            e1 = jonswap(freq=xr.DataArray(f, dims=["freq"], coords={"freq": f}), fp=fp, hs=hs0 * (1 + 0.05 * js), gamma=g0 * (1 + 0.1 * it)).values
            e1 = e1 * (1 + 0.03 * rng.standard_normal(len(f))).clip(0.5, 1.5)
            A[it, js] = e1[:, None] * (np.cos(np.radians(th - 40.0 * js) / 2) ** 4)[None, :] / 100.0
    x = gen.make_da(A, f, th, ["time", "site"], [nt, ns])
    which = str(rng.choice(["jonswap", "gaussian"]))

    def call(y):
        fn = y.spec.fit_jonswap if which == "jonswap" else y.spec.fit_gaussian
        return fn(spectra=False, params=True)

    import warnings
    with warnings.catch_warnings():
        warnings.simplefilter("ignore")
        try:
            R0 = call(x).compute()
        except Exception as e:
            rec.skip("fits", "in-memory fit raised %s" % type(e).__name__)
            return
        for ch in ({"site": 1}, {"time": 1}, {"time": 1, "site": 1}, {"time": 2}):
            sched, nw = SCHEDS[int(rng.integers(len(SCHEDS)))]
            key = "fit_%s|chunks=%s|%s%d" % (which, "+".join(sorted(ch)), sched, nw)
            try:
                kw = {"scheduler": sched}
                if sched == "threads":
                    kw["num_workers"] = nw
                Rc = call(x.chunk(ch)).compute(**kw)
            except Exception as e:
                rec.bad("fits", key, {"raised": repr(e)[:300]}, "raises-on-chunked-input")
                continue
            bad = None
            for v in R0.data_vars:
                a, b = np.asarray(R0[v].values, dtype="float64"), np.asarray(Rc[v].transpose(*R0[v].dims).values, dtype="float64")
                same = (np.isnan(a) & np.isnan(b)) | (np.abs(a - b) <= 1e-7 * np.abs(a))
                if not same.all():
                    bad = (v, float(np.nanmax(np.abs(a - b) / np.abs(a))))
                    break
            if bad is None:
                rec.ok("fits", key)
            else:
                rec.bad("fits", key, {"parameter": bad[0], "max_relative_difference": bad[1], "chunks": ch}, "chunked-result-differs")


def stress(ctx, rng, xr, dask, tr):
    """Several datasets (same or different grid shapes) partitioned at once by a thread pool."""
    rec = ctx.rec
    mixed = bool(rng.random() < 0.6)
    nds = int(rng.integers(2, 5))
    shapes = []
    base = (int(rng.integers(3, 20)), int(rng.integers(3, 20)))
    for k in range(nds):
        shapes.append((int(rng.integers(3, 24)), int(rng.integers(3, 24))) if mixed else base)
    if mixed and rng.random() < 0.5:
        shapes[1] = (shapes[0][1], shapes[0][0])     # transposed shape: same nk*nth, different layout
    lazies, refs = [], []
    ntime = int(rng.integers(12, 40))
    method = str(rng.choice(["ptm3", "hp01"]))
    if method == "hp01" and rng.random() < 0.7:
        shapes = [base] * nds          # equal shapes, different grids: state keyed on the shape alone is shared wrongly
    for kk, (nf, nd) in enumerate(shapes):
        # same shape does not mean same grid: each dataset has its own frequency range and direction offset
        f = np.linspace(0.04 * (1 + 0.07 * kk), 0.4 * (1 + 0.05 * kk), nf)
        th = (np.arange(nd) * (360.0 / nd) + (kk % 2) * 180.0 / nd) % 360.0
        A = np.array([gen.spectrum(rng, f, th, "multimodal")[0] for _ in range(ntime)])
        x = gen.make_da(A, f, th, ["time"], [ntime], dtype="float32")
        parts = int(rng.integers(2, 5))
        if method == "hp01":
            co_ = {"time": x.time}
            w_ = xr.DataArray(np.full(ntime, 8.0), dims=["time"], coords=co_)
            wd_ = xr.DataArray(np.full(ntime, 200.0), dims=["time"], coords=co_)
            dp_ = xr.DataArray(np.full(ntime, 60.0), dims=["time"], coords=co_)
            try:
                refs.append(x.spec.partition.hp01(w_, wd_, dp_, swells=parts).values)
            except Exception:
                continue        # hp01 is experimental: no swell partition on this dataset
            lazies.append(x.chunk({"time": 1}).spec.partition.hp01(w_, wd_, dp_, swells=parts))
        else:
            refs.append(x.spec.partition.ptm3(parts=parts).values)
            lazies.append(x.chunk({"time": 1}).spec.partition.ptm3(parts=parts))
    if len(lazies) < 2:
        rec.skip("stress", "fewer than two datasets could be partitioned")
        return
    tr.stats()
    nw = int(rng.choice([2, 4, 8, 16]))
    key = "stress|%s|%s|workers=%d|datasets=%d" % (method, "mixed-shapes" if mixed else "one-shape", nw, len(lazies))
    reps = 5
    for r in range(reps):
        try:
            outs = dask.compute(*lazies, scheduler="threads", num_workers=nw)
        except Exception as e:
            rec.bad("stress", key, {"raised": repr(e)[:300], "shapes": shapes}, "threaded-partition-raises")
            return
        ncalls, nthreads, switches, shape_switches = tr.stats()
        rec.note("native_calls", ncalls)
        rec.note("thread_switches_between_native_calls", switches)
        rec.note("shape_changes_across_threads", shape_switches)
        rec.extra["max_threads_seen"] = max(rec.extra.get("max_threads_seen", 0), nthreads)
        good = all(np.array_equal(o.values, ref) for o, ref in zip(outs, refs))
        if good:
            rec.ok("stress", key, sample={"shapes": shapes, "workers": nw, "native_calls": ncalls, "thread_switches": switches})
        else:
            rec.bad("stress", key, {"shapes": shapes, "workers": nw, "repetition": r, "thread_switches": switches}, "threaded-partition-differs-from-serial")
            return
