"""C14: site selection finds the right stations on a sphere-aware longitude axis
(independent-geometry monitor on Dataset.spec.sel with nearest / idw / bbox)."""
import numpy as np

from vf.cmp import close


def to180(a):
    return ((np.asarray(a, dtype="float64") + 180.0) % 360.0) - 180.0


def to360(a):
    return np.asarray(a, dtype="float64") % 360.0


def dist(slon, slat, lon, lat):
    d = np.abs(to360(slon) - to360(lon)) % 360.0
    d = np.minimum(d, 360.0 - d)
    return np.sqrt(d ** 2 + (np.asarray(slat) - lat) ** 2)


def convention(a):
    """'180' if some value is negative, '360' if some value exceeds 180, else 'either'."""
    a = np.asarray(a, dtype="float64")
    if a.min() < 0:
        return "180"
    if a.max() > 180:
        return "360"
    return "either"


def lon_matches(reported, true_lon, conv):
    opts = {"180": [to180(true_lon)], "360": [to360(true_lon)], "either": [to180(true_lon), to360(true_lon)]}[conv]
    # -180 and +180 are the same meridian in the [-180, 180] convention
    return any(np.allclose(reported, o, atol=1e-9) or (abs(abs(float(reported)) - 180.0) < 1e-9 and abs(abs(float(o)) - 180.0) < 1e-9) for o in opts)


def stations(rng):
    n = int(rng.integers(2, 13))
    kind = str(rng.choice(["random", "greenwich", "dateline", "cluster"]))
    if kind == "random":
        lon = rng.uniform(0, 360, n)
    elif kind == "greenwich":
        lon = np.concatenate([rng.uniform(355, 360, n // 2), rng.uniform(0, 5, n - n // 2)])
    elif kind == "dateline":
        lon = np.concatenate([rng.uniform(175, 180, n // 2), rng.uniform(180.01, 185, n - n // 2)])
    else:
        c = float(rng.choice([0.0, 90.0, 180.0, 270.0, 359.0]))
        lon = (c + rng.uniform(-3, 3, n)) % 360
    if kind == "dateline" and rng.random() < 0.5:
        lon[int(rng.integers(n))] = 180.0
    lat = rng.uniform(-60, 60, n) if kind == "random" else rng.uniform(-3, 3, n)
    # multiples of 1/8 degree: exactly representable, so that mod-360 arithmetic and "distance
    # exactly zero" do not depend on rounding
    return (np.round(lon * 8) / 8) % 360, np.round(lat * 8) / 8, kind


def run(ctx):
    import xarray as xr
    import wavespectra  # noqa

    for i, rng in ctx.cases("sel", ctx.n(8000, 160000)):
        one(ctx, rng, xr)


def one(ctx, rng, xr):
    rec = ctx.rec
    slon, slat, kind = stations(rng)
    n = len(slon)
    dconv = str(rng.choice(["360", "180"]))
    dlon = to360(slon) if dconv == "360" else to180(slon)
    if dconv == "180" and dlon.min() >= 0:
        dconv = "either"
    nf, nd = 3, 4
    E = rng.random((2, n, nf, nd)) + np.arange(n)[None, :, None, None]
    if rng.random() < 0.15:
        # spectra stored as integers (counts, packed values opened without scaling): "missing" still has to be expressible
        # (the smallest value of station i is i itself, as for the real-valued spectra: the monitors identify stations by it)
        E = 64 * rng.integers(0, 30, size=E.shape) + np.arange(n)[None, :, None, None]
        E[0, :, 0, 0] = np.arange(n)
        E = E.astype(str(rng.choice(["int16", "int32", "int64"])))
    ds = xr.Dataset({"efth": (("time", "site", "freq", "dir"), E)},
                    coords={"time": [0, 1], "site": np.arange(n) + 10, "freq": [0.1, 0.2, 0.3], "dir": [0.0, 90.0, 180.0, 270.0]})
    sdt = str(rng.choice(["float64", "float64", "float64", "float32"]))   # lattice values are exact in float32 too
    hist = str(rng.choice(["none", "none", "none", "assign", "values"]))
    if hist == "none":
        ds["lon"] = (("site",), dlon.astype(sdt))
        ds["lat"] = (("site",), slat.astype(sdt))
    else:
        # history: the same Dataset object first carries other station positions (other layout, possibly the
        # other convention), is queried once, and then has its coordinates replaced in place
        olon, olat, _ = stations(rng)
        olon = np.resize(olon, n)
        olat = np.resize(olat, n)
        olon = to360(olon) if rng.random() < 0.5 else to180(olon)
        ds["lon"] = (("site",), olon.astype(sdt))
        ds["lat"] = (("site",), olat.astype(sdt))
        try:
            m0 = str(rng.choice(["nearest", "idw", "bbox"]))
            ds.spec.sel([float(olon[0])], [float(olat[0])], method=m0, tolerance=5.0)
        except Exception:
            pass
        if hist == "assign":
            ds["lon"] = (("site",), dlon.astype(sdt))
            ds["lat"] = (("site",), slat.astype(sdt))
        else:
            ds["lon"].values[:] = dlon.astype(sdt)
            ds["lat"].values[:] = slat.astype(sdt)
        rec.ok("history", "%s|%s" % (hist, m0))
    method = str(rng.choice(["nearest", "nearest", "idw", "idw", "bbox", "bbox"]))
    nq = int(rng.integers(1, 5))
    # queries near stations (incl. exact hits and points across the meridians) or anywhere
    qi = rng.integers(0, n, nq)
    off = rng.uniform(-1, 1, nq) * float(rng.choice([0.0, 0.2, 2.0, 8.0]))
    qlon_true = (slon[qi] + off) % 360
    qlat = np.round((slat[qi] + rng.uniform(-1, 1, nq) * float(rng.choice([0.0, 0.2, 2.0]))) * 8) / 8
    qlon_true = (np.round(qlon_true * 8) / 8) % 360
    offlat = bool(rng.random() < 0.3) and method != "bbox"
    if offlat:
        # query points off the 1/8-degree lattice (not representable in single precision), some very close to a station
        step = float(rng.choice([0.001, 0.01, 0.1, 1e-5, 1e-6]))        # down to a few metres from a station
        qlon_true = (qlon_true + step * rng.integers(3, 40, nq) * rng.choice([-1, 1], nq)) % 360
        qlat = qlat + step * rng.integers(3, 40, nq) * rng.choice([-1, 1], nq)
    if rng.random() < 0.15 and nq > 1:
        qlon_true[1], qlat[1] = qlon_true[0], qlat[0]      # duplicated query point
    qconv_req = str(rng.choice(["360", "180"]))
    qlon = to360(qlon_true) if qconv_req == "360" else to180(qlon_true)
    qconv = convention(qlon)
    tol = float(rng.choice([0.0, 0.5, 2.0, 10.0]))
    pre = bool(rng.random() < 0.3)
    kw = dict(dset_lons=ds["lon"].values.copy(), dset_lats=ds["lat"].values.copy()) if pre else {}
    key = "%s|stations=%s:%s|dset=%s|query=%s%s|tol=%g|pre=%s|hist=%s" % (method, kind, sdt, dconv, qconv, ":offlattice" if offlat else "", tol, pre, hist)
    det = {"station_lon": dlon, "station_lat": slat, "query_lon": qlon, "query_lat": qlat, "tolerance": tol, "method": method}
    if rng.random() < 0.2:
        # dask-backed station dataset (as opened from a file with chunks); positions stay in memory
        ds["efth"] = ds["efth"].chunk({"site": int(rng.integers(1, n + 1))} if rng.random() < 0.7 else {})
        key += "|dask"
    # the query is handed over as lists or as numpy arrays the caller keeps
    as_arrays = bool(rng.random() < 0.5)
    qarg = (np.array(qlon, dtype="float64"), np.array(qlat, dtype="float64")) if as_arrays else (list(qlon), list(qlat))
    lon0, lat0 = ds["lon"].values.copy(), ds["lat"].values.copy()
    if method == "nearest":
        nearest(rec, key, det, ds, slon, slat, qlon, qlat, qconv, tol, kw, rng, E, qarg)
    elif method == "idw":
        idw(rec, key, det, ds, slon, slat, qlon, qlat, qconv, tol, kw, rng, E, qarg)
    else:
        bbox(rec, key, det, ds, slon, slat, dlon, qlon, qlat, qconv, tol, kw, rng, E, qarg)
    # a later selection on the same dataset / with the same query objects must see what this one saw
    same_q = np.array_equal(np.asarray(qarg[0], dtype="float64"), qlon) and np.array_equal(np.asarray(qarg[1], dtype="float64"), qlat)
    same_d = np.array_equal(ds["lon"].values, lon0) and np.array_equal(ds["lat"].values, lat0)
    pk = "%s|dset=%s|query=%s|%s" % (method, dconv, qconv, "arrays" if as_arrays else "lists")
    if same_q and same_d:
        rec.ok("inputs_left_for_next_selection", pk)
    else:
        rec.bad("inputs_left_for_next_selection", pk, dict(det, query_lon_after=np.asarray(qarg[0]), dataset_lon_before=lon0, dataset_lon_after=ds["lon"].values),
                "selection-rewrites-query-array" if not same_q else "selection-rewrites-dataset-coordinates")


def short_way_defect(slon, slat, qlon, qlat, tol, chosen):
    """Defect model: differences of longitudes taken as |a mod 360 - b mod 360| (not the short way)."""
    out = []
    for lo, la in zip(qlon, qlat):
        d = np.sqrt((to360(slon) - to360(lo)) ** 2 + (slat - la) ** 2)
        out.append(int(np.argmin(d)))
    return out


def nearest(rec, key, det, ds, slon, slat, qlon, qlat, qconv, tol, kw, rng, E, qarg):
    exp, amb, fail = [], False, False
    for lo, la in zip(qlon, qlat):
        d = dist(slon, slat, lo, la)
        o = np.argsort(d)
        if len(d) > 1 and d[o[1]] - d[o[0]] < 1e-9:
            amb = True
        if abs(d[o[0]] - tol) < 1e-9 and not (tol == 0.0 and d[o[0]] == 0.0):
            amb = True
        if d[o[0]] > tol:
            fail = True
        exp.append(int(o[0]))
    if amb:
        rec.skip("nearest", "equidistant candidates or distance equal to the tolerance")
        return
    variant = str(rng.choice(["plain", "plain", "unique", "ignore", "exact"]))
    key += "|" + variant
    if variant == "unique":
        kw = dict(kw, unique=True)
        seen, exp2 = set(), []
        for s_ in exp:
            if s_ not in seen:
                seen.add(s_)
                exp2.append(s_)
        if not fail:
            exp = exp2
    elif variant == "ignore":
        kw = dict(kw, missing="ignore")
        keep = [k for k, (lo, la) in enumerate(zip(qlon, qlat)) if dist(slon, slat, lo, la).min() <= tol]
        exp = [exp[k] for k in keep]
        fail = False
        if not exp:
            try:
                ds.spec.sel(*qarg, method="nearest", tolerance=tol, **kw)
                rec.bad("nearest", key, dict(det, expected="ValueError: no site within tolerance"), "nearest-ignore-returns-nothing-silently")
            except ValueError:
                rec.ok("nearest", key + "|nothing-in-range-rejected")
            except Exception as e:
                rec.bad("nearest", key, dict(det, raised=repr(e)[:200]), "sel-raises")
            return
    elif variant == "exact":
        # method=None: only exact matches are accepted
        allz = all(dist(slon, slat, lo, la).min() == 0 for lo, la in zip(qlon, qlat))
        try:
            r = ds.spec.sel(*qarg, method=None, tolerance=tol, **kw)
            ok_ = allz and not fail
        except AssertionError:
            ok_ = (not allz) or fail
            r = None
        except Exception as e:
            rec.bad("nearest", key, dict(det, raised=repr(e)[:200]), "sel-raises")
            return
        if not ok_:
            rec.bad("nearest", key, dict(det, all_exact=allz, returned=r is not None), "exact-selection-wrong-verdict")
            return
        if r is None:
            rec.ok("nearest", key + "|inexact-rejected")
            return
        kw = None
    try:
        if kw is not None:
            r = ds.spec.sel(*qarg, method="nearest", tolerance=tol, **kw)
    except AssertionError as e:
        if fail:
            rec.ok("nearest", key + "|too-far-rejected")
        else:
            bad = short_way_defect(slon, slat, qlon, qlat, tol, None)
            rec.bad("nearest", key, dict(det, raised=repr(e)[:200], expected_stations=exp), "longitude-difference-not-taken-the-short-way" if bad != exp or True and _would_fail_naive(slon, slat, qlon, qlat, tol) else None)
        return
    except Exception as e:
        rec.bad("nearest", key, dict(det, raised=repr(e)[:200]), "sel-raises")
        return
    if fail:
        rec.bad("nearest", key, dict(det, expected="failure: nearest station farther than the tolerance", got_sites=r.sizes.get("site")),
                "longitude-difference-not-taken-the-short-way" if not _would_fail_naive(slon, slat, qlon, qlat, tol) else "nearest-accepts-station-beyond-tolerance")
        return
    got_vals = r["efth"].transpose("site", "time", "freq", "dir").values
    good = r.sizes["site"] == len(exp) and all(np.array_equal(got_vals[k], E[:, s].reshape(got_vals[k].shape)) for k, s in enumerate(exp))
    lon_ok = r.sizes["site"] == len(exp) and all(lon_matches(float(r["lon"].values[k]), slon[s], qconv) for k, s in enumerate(exp)) \
        and np.allclose(r["lat"].values, slat[exp])
    if good and lon_ok:
        rec.ok("nearest", key, sample={"query": [qlon[0], qlat[0]], "station": exp[0]})
    elif not good:
        naive = short_way_defect(slon, slat, qlon, qlat, tol, None)
        got = [int(round(float(got_vals[k].min()) - 0.0)) if False else int(np.floor(got_vals[k].min())) for k in range(got_vals.shape[0])]
        rec.bad("nearest", key, dict(det, expected_stations=exp, got_stations=got), "longitude-difference-not-taken-the-short-way" if got == naive else "nearest-wrong-station")
    else:
        rec.bad("nearest", key, dict(det, reported_lon=r["lon"].values, station_lon_true=slon[exp], query_convention=qconv), "reported-longitude-not-in-query-convention")


def _would_fail_naive(slon, slat, qlon, qlat, tol):
    for lo, la in zip(qlon, qlat):
        d = np.sqrt((to360(slon) - to360(lo)) ** 2 + (slat - la) ** 2)
        if d.min() > tol:
            return True
    return False


def idw(rec, key, det, ds, slon, slat, qlon, qlat, qconv, tol, kw, rng, E, qarg):
    ms = int(rng.integers(1, 7))
    key += "|max_sites=%d" % min(ms, 4)
    exp, amb = [], False
    for lo, la in zip(qlon, qlat):
        d = dist(slon, slat, lo, la)
        o = np.argsort(d, kind="stable")
        inr = [i for i in o if d[i] <= tol][:ms]
        if any(abs(d[i] - tol) < 1e-9 and not (tol == 0.0 and d[i] == 0.0) for i in range(len(d))):
            amb = True          # (a distance of exactly zero is within a tolerance of zero: lattice coordinates, no rounding)
        k = len(inr)
        if k < len(o) and k == ms and k > 0 and abs(d[o[k]] - d[o[k - 1]]) < 1e-9:
            amb = True
        if inr and d[inr[0]] == 0:
            # co-located stations: any of those at zero distance is "the station itself"
            exp.append(("exact", [int(i) for i in np.flatnonzero(d == 0)], [1.0]))
        elif len(inr) < 2:
            exp.append(("nan", [], []))
        else:
            w = 1.0 / d[inr]
            exp.append(("mix", inr, list(w / w.sum())))
    if amb:
        rec.skip("idw", "a station at exactly the tolerance or a tie at the max_sites cut")
        return
    gap = None
    if E.dtype.kind == "i":
        key += "|int-spectra"
    if E.dtype.kind != "i" and rng.random() < 0.25:
        # a missing record (time 1) at one station: wherever that station is used, the combination is missing at that time
        gap = int(rng.integers(len(slon)))
        E = E.copy()
        E[1, gap] = np.nan
        if hasattr(ds["efth"].data, "dask"):
            import dask.array as dsa
            ds["efth"] = (ds["efth"].dims, dsa.from_array(E, chunks=ds["efth"].data.chunksize))
        else:
            ds["efth"] = (ds["efth"].dims, E)
        key += "|gap"
    try:
        r = ds.spec.sel(*qarg, method="idw", tolerance=tol, max_sites=ms, **kw)
    except Exception as e:
        rec.bad("idw", key, dict(det, raised=repr(e)[:200], max_sites=ms), "sel-raises")
        return
    got = r["efth"].transpose("site", "time", "freq", "dir").values
    if got.shape[0] != len(exp):
        rec.bad("idw", key, dict(det, sites=got.shape[0]), "idw-wrong-number-of-sites")
        return
    for k, (kind, ids, w) in enumerate(exp):
        if kind == "nan":
            good = np.isnan(got[k]).all()
        else:
            ref = sum(wi * E[:, i] for wi, i in zip(w, ids))
            good = close(got[k], ref, 1e-9)[0] if kind != "exact" else False
            if kind == "exact":
                good = any(np.array_equal(got[k], E[:, i], equal_nan=True) for i in ids)
        if not good:
            dn = np.sqrt((to360(slon) - to360(qlon[k])) ** 2 + (slat - qlat[k]) ** 2)
            on = [i for i in np.argsort(dn, kind="stable") if dn[i] <= tol][:ms]
            naive_same = (sorted(on) == sorted(ids)) and np.allclose(dn[on], dist(slon, slat, qlon[k], qlat[k])[on]) if on else (kind == "nan")
            rec.bad("idw", key, dict(det, query_index=k, expected=kind, expected_stations=ids, expected_weights=w, max_sites=ms,
                                     got_is_nan=bool(np.isnan(got[k]).all())),
                    "longitude-difference-not-taken-the-short-way" if not naive_same else "idw-wrong-combination")
            return
    if not (all(lon_matches(float(r["lon"].values[k]), qlon[k], qconv) for k in range(len(exp))) and np.allclose(r["lat"].values, qlat)):
        rec.bad("idw", key, dict(det, reported_lon=r["lon"].values, query_convention=qconv), "reported-longitude-not-in-query-convention")
        return
    rec.ok("idw", key, sample={"query": [qlon[0], qlat[0]], "expected": exp[0][0], "stations": exp[0][1]})


def bbox(rec, key, det, ds, slon, slat, dlon, qlon, qlat, qconv, tol, kw, rng, E, qarg):
    lo, hi = qlon.min() - tol, qlon.max() + tol
    la0, la1 = qlat.min() - tol, qlat.max() + tol
    sets = {}
    for conv in (["180", "360"] if qconv == "either" else [qconv]):
        sl = to180(slon) if conv == "180" else to360(slon)
        # coordinates are multiples of 1/8 degree, so membership on a box edge is exact (closed box);
        # only a station sitting on a convention seam (0E / 180E) has no unique expression
        if np.any(np.abs(to360(slon) - 180) < 1e-9) or np.any(to360(slon) < 1e-9):
            rec.skip("bbox", "a station exactly on a longitude-convention seam")
            return
        sets[conv] = tuple(np.flatnonzero((sl >= lo) & (sl <= hi) & (slat >= la0) & (slat <= la1)))
    if len(set(sets.values())) > 1:
        rec.skip("bbox", "query convention ambiguous and the two readings select different stations")
        return
    exp = list(list(sets.values())[0])
    try:
        r = ds.spec.sel(*qarg, method="bbox", tolerance=tol, **kw)
    except ValueError as e:
        if not exp:
            rec.ok("bbox", key + "|empty-box-rejected")
        else:
            rec.bad("bbox", key, dict(det, raised=repr(e)[:200], expected_stations=exp), "bbox-wrapped-branch" if _wrapped(dlon, qlon) else "bbox-wrong-stations")
        return
    except Exception as e:
        rec.bad("bbox", key, dict(det, raised=repr(e)[:200]), "sel-raises")
        return
    got_vals = r["efth"].transpose("site", "time", "freq", "dir").values
    got = sorted(int(np.floor(got_vals[k].min())) for k in range(got_vals.shape[0]))
    if got != sorted(exp):
        rec.bad("bbox", key, dict(det, expected_stations=exp, got_stations=got, box=[lo, hi, la0, la1]), "bbox-wrapped-branch" if _wrapped(dlon, qlon) else "bbox-wrong-stations")
        return
    order = [int(np.floor(got_vals[k].min())) for k in range(got_vals.shape[0])]
    if not all(lon_matches(float(r["lon"].values[k]), slon[s], qconv) for k, s in enumerate(order)):
        rec.bad("bbox", key, dict(det, reported_lon=r["lon"].values, query_convention=qconv), "reported-longitude-not-in-query-convention")
        return
    rec.ok("bbox", key, sample={"box": [lo, hi, la0, la1], "stations": exp})


def _wrapped(dlon, qlon):
    """The library's wrapped branch: dataset in 0-360 and query with negative longitudes."""
    return dlon.min() >= 0 and dlon.max() <= 360 and not (qlon.min() >= 0 and qlon.max() <= 360)
