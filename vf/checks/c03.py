"""C03: watershed partitions are a sound, ordered, energy-conserving split.

Post-condition monitor: inside every np_ptm1/2/3 call the label map returned by the real
native routine is recorded (wrapper on the module attribute the library looks up at call
time) and the output is checked against it."""
import numpy as np

from vf import gen
from vf.cmp import vals
from vf.oracle import partrules as R


class MapRecorder:
    """Records (input, ihmax, label map) of every native call in one lock-protected list (calls may
    come from dask worker threads; consumers pair them with positions by content)."""

    def __init__(self, specpart):
        import threading
        self.mod = specpart
        self.orig = specpart.partition
        self.lock = threading.Lock()
        self.calls = []
        specpart.partition = self

    def __call__(self, spec, ihmax):
        L = self.orig(spec, ihmax)
        item = (np.array(spec, copy=True), int(ihmax), np.array(L, copy=True))
        with self.lock:
            self.calls.append(item)
        return L

    def take(self):
        with self.lock:
            c, self.calls = self.calls, []
        return c


def make_spec(rng, f, th, cls):
    nf, nd = len(f), len(th)
    if cls == "plateau":
        E = rng.integers(0, 5, (nf, nd)).astype(float)
    elif cls == "constant":
        E = np.full((nf, nd), float(rng.choice([0.0, 0.5, 2.0])))
    elif cls == "sparse":
        E = np.zeros((nf, nd))
        for _ in range(int(rng.integers(1, 4))):
            E[rng.integers(nf), rng.integers(nd)] = float(rng.uniform(0.1, 5))
    elif cls == "floor":
        E, _ = gen.spectrum(rng, f, th, "multimodal")
        E = np.maximum(E / max(E.max(), 1e-300), float(rng.uniform(0.03, 0.4)))
    elif cls == "noisy":
        E, _ = gen.spectrum(rng, f, th, "multimodal")
        E = E * (1 + 0.3 * rng.random(E.shape))
    else:
        E, _ = gen.spectrum(rng, f, th, "multimodal")
    return E


CLASSES = ["multimodal", "multimodal", "noisy", "plateau", "sparse", "constant", "floor", "floor"]


def repo_tests(ctx, mode, tests):
    """Extra workload (thorough tier, shard 0): the repository's own tests under the monitor."""
    import json, os, subprocess, tempfile
    from vf import repo_root, VERIF_ROOT, PYTHON
    from wavespectra.partition import specpart
    rec = ctx.rec
    fd, out = tempfile.mkstemp(suffix=".json")
    os.close(fd)
    env = dict(os.environ, PYTHONPATH=VERIF_ROOT + os.pathsep + repo_root(), VF_SO=specpart.__file__, VF_PLUGIN_OUT=out, VF_PLUGIN_MODE=mode, MPLBACKEND="Agg")
    try:
        subprocess.run([PYTHON, "-m", "pytest", "-q", "-p", "no:cacheprovider", "-p", "vf.pytest_plugin", "-x", "--timeout=900"] + tests,
                       cwd=repo_root(), env=env, capture_output=True, text=True, timeout=3000)
        res = json.load(open(out))
    except Exception as e:
        rec.skip("repo_tests", "could not run the repository tests under the monitor: %r" % (e,))
        return
    finally:
        if os.path.exists(out):
            os.remove(out)
    for op, n in res["ok"].items():
        for _ in range(n):
            rec.ok(op, "repository test-suite workload")
    for b in res["bad"]:
        rec.bad(b["op"], b["test"], b["detail"], b["mech"])
    for k, n in res["skip"].items():
        rec.skip(k, "x%d" % n)


def run(ctx):
    import xarray as xr
    import wavespectra  # noqa
    from wavespectra.partition import specpart, partition as pmod
    from wavespectra.core import utils

    mr = MapRecorder(specpart)
    for i, rng in ctx.cases("numpy", ctx.n(4000, 150000)):
        numpy_level(ctx, rng, pmod, mr, utils)
    for i, rng in ctx.cases("accessor", ctx.n(260, 6000)):
        accessor_level(ctx, rng, xr, pmod, mr, utils)
    for i, rng in ctx.cases("history", ctx.n(300, 6000)):
        history(ctx, rng, pmod, mr)
    corpus(ctx, pmod, mr)
    if ctx.thorough and ctx.shard == 0 and ctx.only is None:
        specpart.partition = mr.orig
        repo_tests(ctx, "c03", ["tests/test_partition.py"])


def history(ctx, rng, pmod, mr):
    """Sequences of calls on grids that share size, end frequencies, depth and wind but differ in
    their interior spacing: every call is judged on its own (nothing may carry over)."""
    nf = int(rng.choice([6, 10, 16, 25]))
    nd = int(rng.choice([8, 12, 24]))
    lo, hi = 0.04, float(rng.choice([0.3, 0.4, 0.6]))
    th = np.arange(nd) * (360.0 / nd)
    wind = (float(rng.uniform(5, 30)), float(rng.uniform(0, 360)), float(rng.choice([15.0, 30.0, 80.0, 2000.0])), 1.7, 0.3333)
    grids = [np.geomspace(lo, hi, nf), np.linspace(lo, hi, nf), lo + (hi - lo) * np.linspace(0, 1, nf) ** 1.6]
    for step in range(int(rng.integers(3, 7))):
        f = grids[int(rng.integers(len(grids)))]
        kind = str(rng.choice(["ptm1", "ptm2"]))
        S = make_spec(rng, f, th, "multimodal")
        mr.take()
        fn = pmod.np_ptm1 if kind == "ptm1" else pmod.np_ptm2
        out = fn(S, S, f, th, wind[0], wind[1], wind[2], agefac=wind[3], wscut=wind[4], swells=4, ihmax=100)
        calls = mr.take()
        judge(ctx.rec, "np_" + kind, "history|%s|step=%d|nf=%d" % (kind, min(step, 3), nf), kind, S, calls[0][2], f, th, out, 4, wind, 1e-9,
              {"ihmax": 100, "kind": kind, "native_ptp": float(np.ptp(calls[0][0])), "history_step": step})


def corpus(ctx, pmod, mr):
    """Regression corpus of spectra with thick watershed zones (see vf/checks/c04.py): with more
    partitions requested than detected the partitions must still add up to the input."""
    import os
    z = np.load(os.path.join(os.path.dirname(os.path.dirname(os.path.abspath(__file__))), "corpus_thick_watershed.npz"))
    names = sorted(z.files)
    for k, rng in ctx.cases("corpus", len(names)):
        S = np.asarray(z[names[k]], dtype="float64")
        nf, nd = S.shape
        f = 0.04 * 1.08 ** np.arange(nf)
        th = np.arange(nd) * (360.0 / nd)
        for kind in ("ptm3", "ptm1"):
            mr.take()
            if kind == "ptm3":
                out = pmod.np_ptm3(S, S, f, th, parts=12, ihmax=100)
                wind = None
            else:
                wind = (12.0, 200.0, 50.0, 1.7, 0.3333)
                out = pmod.np_ptm1(S, S, f, th, wind[0], wind[1], wind[2], swells=12, ihmax=100)
            calls = mr.take()
            judge(ctx.rec, "np_" + kind, "corpus|%s|%s" % (names[k][0], kind), kind, S, calls[0][2], f, th, out, 12, wind, 1e-9,
                  {"ihmax": 100, "kind": kind, "native_ptp": float(np.ptp(calls[0][0])), "corpus": names[k]})


def grid(rng, small=False):
    nf = int(rng.choice([2, 3, 4, 6, 10, 16, 25, 40] if not small else [2, 3, 5, 8]))
    nd = int(rng.choice([2, 3, 4, 8, 12, 24, 36] if not small else [2, 4, 8, 12]))
    f, fm = gen.freq_grid(rng, nf=nf)
    th, dd, dm = gen.dir_grid(rng, nd=nd, full=True)
    return f, th, fm, dm


def judge(rec, op, key, kind, S, L, f, th, out, req, wind, rt, extra):
    probs, inc = R.check(kind, S, L, f, th, out, req, wind=wind, hs_rtol=rt, weak_ok=True)
    if inc:
        rec.skip(op, inc)
        return
    if not probs:
        rec.ok(op, key, sample={"labels_max": int(L.max()), "requested": req, "out_shape": list(np.shape(out))})
        return
    for mech, data in probs[:1]:
        d = {"spectrum": S, "labels": L, "freq": f, "dir": th, "requested": req, "wind": wind, "out": out, "data": data}
        d.update(extra)
        if mech in ("energy-dropped-although-enough-partitions-requested", "sum-differs-from-input", "energy-in-unlabelled-bins-dropped") \
                and L.max() == 0 and extra.get("native_ptp", 1.0) < 1e-9 and np.asarray(S).any():
            mech = "constant-spectrum-has-no-basin-energy-dropped"
        rec.bad(op, key, d, mech)


def numpy_level(ctx, rng, pmod, mr, utils):
    rec = ctx.rec
    f, th, fm, dmeta = grid(rng)
    cls = str(rng.choice(CLASSES))
    zero_hz = len(f) >= 3 and rng.random() < 0.08
    if zero_hz:
        # a grid whose first bin is 0 Hz (valid: no phase speed there, so never wind sea, but its energy is kept)
        f = np.linspace(0.0, float(f[-1]), len(f))
    S = make_spec(rng, np.where(f > 0, f, f[1] / 2) if zero_hz else f, th, cls)
    if zero_hz and rng.random() < 0.7:
        S[0] = np.maximum(S[0], S.max() * rng.uniform(0.05, 0.6, len(th)))
    dt = str(rng.choice(["float64", "float32"]))
    # overall energy level: exact power-of-two rescalings (other units, millimetre sea states) leave every decision unchanged
    lvl = int(rng.choice([0, 0, 0, 0, -8, -16, -24, -30, 10]))
    S = (S * 2.0 ** lvl).astype(dt)
    smooth = S if rng.random() < 0.7 else (S + np.roll(S, 1, 1) + np.roll(S, -1, 1)) / 3
    kind = str(rng.choice(["ptm1", "ptm2", "ptm3"]))
    ihmax = int(rng.choice([1, 2, 5, 20, 100, 100, 1000]))
    wind = (float(rng.uniform(0, 40)), float(rng.uniform(0, 360)), float(10 ** rng.uniform(0, 3.7)),
            float(rng.uniform(0.5, 2.5)), float(rng.choice([0.0, 0.1, 0.3333, 0.5, 0.9, 1.0])))
    mr.take()
    probe = mr.orig(np.ascontiguousarray(smooth.astype(np.float32)), ihmax)
    det = int(np.max(probe))
    req = int(rng.choice([0, 1, max(det - 1, 0), det, det + 1, det + 2, 3])) if rng.random() < 0.9 else None
    if kind == "ptm3" and req == 0:
        req = 1   # zero partitions of a method without a wind-sea slot is an empty request
    key = "%s|%s|%s|nf=%d|nd=%d|ihmax=%d|req=%s|level=2^%d" % (kind, cls, dt, len(f), len(th), ihmax,
                                                      "none" if req is None else ("lt" if req < det else ("eq" if req == det else "gt")), lvl)
    if zero_hz:
        key += "|first-bin-0Hz"
        rec.note("grid_with_0Hz_bin")
    try:
        if kind == "ptm3":
            out = pmod.np_ptm3(S, smooth, f, th, parts=req, ihmax=ihmax)
        else:
            fn = pmod.np_ptm1 if kind == "ptm1" else pmod.np_ptm2
            out = fn(S, smooth, f, th, wind[0], wind[1], wind[2], agefac=wind[3], wscut=wind[4], swells=req, ihmax=ihmax)
    except Exception as e:
        rec.bad("np_" + kind, key, {"raised": repr(e), "spectrum": S, "freq": f, "dir": th, "requested": req, "ihmax": ihmax}, "raises:%s" % type(e).__name__)
        return
    calls = mr.take()
    if len(calls) != 1:
        # whatever the Python layer did instead: the partitions must be those of the watershed of the smoothed spectrum
        rec.note("native_routine_not_called_exactly_once")
        L = np.array(mr.orig(np.ascontiguousarray(smooth.astype(np.float32)), ihmax), copy=True)
        calls = [(np.ascontiguousarray(smooth.astype(np.float32)), ihmax, L)]
    L = calls[0][2]
    if req is None:
        # all detected, empty ones excluded: compare as if exactly the detected number was requested
        out = np.asarray(out)
        if out.ndim != 3:
            rec.skip("np_" + kind, "variable-length output")
            return
    judge(rec, "np_" + kind, key, kind, S, L, f, th, out, req, wind if kind != "ptm3" else None,
          1e-9 if dt == "float64" else 2e-5, {"ihmax": ihmax, "kind": kind, "native_ptp": float(np.ptp(calls[0][0]))})


def accessor_level(ctx, rng, xr, pmod, mr, utils):
    rec = ctx.rec
    f, th, fm, dmeta = grid(rng, small=True)
    sector = False
    if rng.random() < 0.3:
        # direction grids the smoothing does not wrap: a uniformly spaced sector, or a full circle whose spacing is not
        # exactly representable (7, 13, 28 bins) - the partitions must still be a conserving split of the raw spectrum
        if rng.random() < 0.6:
            th, _, dmeta = gen.dir_grid(rng, nd=int(rng.choice([4, 7, 10, 12])), full=False)
            sector = True
        else:
            th, _, dmeta = gen.dir_grid(rng, nd=int(rng.choice([7, 13, 28])), full=True)
    names, sizes = gen.lead_dims(rng, nlead=int(rng.choice([0, 1, 2])), maxsize=3, allow=("time", "site", "lat", "lon"))
    npos = int(np.prod(sizes)) if sizes else 1
    A = np.array([make_spec(rng, f, th, str(rng.choice(CLASSES))) for _ in range(npos)]).reshape(tuple(sizes) + (len(f), len(th)))
    dt = str(rng.choice(["float64", "float32"]))
    da = gen.make_da(A, f, th, names, sizes, dtype=dt)
    kind = str(rng.choice(["ptm1", "ptm2", "ptm3"]))
    req = int(rng.integers(0, 5))
    if kind == "ptm3" and req == 0:
        req = 1
    ihmax = int(rng.choice([5, 50, 100]))
    co = {n: da[n] for n in names}
    wspd = xr.DataArray(rng.uniform(0, 35, sizes), dims=names, coords=co)
    wdir = xr.DataArray(rng.uniform(0, 360, sizes), dims=names, coords=co)
    dpt = xr.DataArray(10 ** rng.uniform(0.3, 3.5, sizes), dims=names, coords=co)
    agefac, wscut = float(rng.uniform(0.8, 2.2)), float(rng.choice([0.1, 0.3333, 0.6]))
    smooth = bool(rng.random() < (0.6 if dmeta.get("nd") in (7, 10, 13, 28) or sector else 0.3)) and len(f) >= 3 and len(th) >= 3
    key = "acc|%s|%s|lead=%s|nf=%d|nd=%d|req=%d|smooth=%s%s" % (kind, dt, "+".join(names) or "none", len(f), len(th), req, smooth, "|sector" if sector else "")
    if smooth:
        rec.note("acc_smooth_on_%s_grid" % ("sector" if sector else "circle"))
    skw = dict(smooth=True, freq_window=3, dir_window=3) if smooth else {}
    mr.take()
    try:
        if kind == "ptm3":
            r = da.spec.partition.ptm3(parts=req, ihmax=ihmax, **skw)
        else:
            r = getattr(da.spec.partition, kind)(wspd, wdir, dpt, agefac=agefac, wscut=wscut, swells=req, ihmax=ihmax, **skw)
        out = vals(r)
        rdims = list(r.dims)
    except Exception as e:
        rec.bad("acc_" + kind, key, {"raised": repr(e), "dims": names, "sizes": sizes}, "raises:%s" % type(e).__name__)
        return
    calls = mr.take()
    nlead = {"ptm1": 1, "ptm2": 2, "ptm3": 0}[kind]
    if rdims[0] != "part" or out.shape[0] != req + nlead or rdims[1:] != list(names) + ["freq", "dir"]:
        rec.bad("acc_" + kind, key, {"dims": rdims, "shape": out.shape, "want_parts": req + nlead}, "accessor-output-layout")
        return
    if str(out.dtype) != "float32":
        rec.note("accessor_dtype_" + str(out.dtype))
    Ain = da.values.reshape(npos, len(f), len(th))
    # with smooth=True the watershed boundaries come from the smoothed spectrum (the smoothing
    # itself is C16's business) while the partition values must still be those of the raw one
    Bnd = utils.smooth_spec(da, 3, 3).transpose(*names, "freq", "dir").values.reshape(npos, len(f), len(th)) if smooth else Ain
    outp = np.moveaxis(out.reshape((out.shape[0], npos, len(f), len(th))), 1, 0)
    # pair native calls with positions by content (vectorize may call once more to probe otypes)
    for p in range(npos):
        s32 = np.ascontiguousarray(Bnd[p].astype(np.float32))
        match = [c for c in calls if c[1] == ihmax and c[0].shape == s32.shape and np.array_equal(c[0], s32, equal_nan=True)]
        if match and not np.isfinite(match[0][0]).all() and np.isfinite(Ain[p]).all():
            rec.note("non_finite_values_handed_to_the_watershed")      # observed, not judged: the partitions are
        if not match:
            rec.skip("acc_" + kind, "no recorded native call for this position")
            continue
        L = match[0][2]
        w = None
        if kind != "ptm3":
            w = (float(wspd.values.reshape(-1)[p]), float(wdir.values.reshape(-1)[p]), float(dpt.values.reshape(-1)[p]), agefac, wscut)
        judge(rec, "acc_" + kind, key, kind, Ain[p], L, f, th, outp[p], req, w,
              2e-5, {"position": p, "kind": kind, "ihmax": ihmax, "native_ptp": float(np.ptp(match[0][0]))})
