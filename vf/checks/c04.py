"""C04: one connected basin per regional maximum on the circular grid (invariant monitor on the
label maps returned by the real extension, ASan+UBSan build)."""
import itertools

import numpy as np

from vf.oracle import watershed as W


def shapes_upto(maxbins):
    return [(nk, nth) for nk in range(1, maxbins + 1) for nth in range(1, maxbins + 1) if nk * nth <= maxbins]


def chunks(ctx):
    """Exhaustive sub-space split into chunks of at most 4096 maps."""
    plan = []
    for a, maxbins in ((3, ctx.n(7, 9)), (2, ctx.n(10, 12))):
        for (nk, nth) in shapes_upto(maxbins):
            total = a ** (nk * nth)
            for start in range(0, total, 4096):
                plan.append((a, nk, nth, start, min(total, start + 4096)))
    return plan


def digits(n, base, width):
    out = np.empty(width, dtype=np.float32)
    for i in range(width):
        out[i] = n % base
        n //= base
    return out


def run(ctx):
    from wavespectra.partition import specpart

    rec = ctx.rec
    part = specpart.partition
    plan = chunks(ctx)
    nmaps = 0
    for ci, rng in ctx.cases("exhaustive", len(plan)):
        a, nk, nth, start, stop = plan[ci]
        key = "exh|a=%d|%dx%d" % (a, nk, nth)
        for n in range(start, stop):
            v = digits(n, a, nk * nth)
            if v.max() != a - 1 or v.min() != 0:
                continue  # both extremes present <=> the discretisation is the identity
            spec = np.ascontiguousarray(v.reshape(nk, nth))
            lab = np.asarray(part(spec, a))
            lv = (a - 1) - spec.astype(np.int64)
            nmaps += 1
            judge(rec, "map_exhaustive", key, spec, a, lv, lab)
            # commutation with the unit shift (closure over the enumerated space gives all shifts)
            lab1 = np.asarray(part(np.ascontiguousarray(np.roll(spec, 1, axis=1)), a))
            if W.shift_sets(W.as_sets(lab), 1, nth) == W.as_sets(lab1):
                rec.ok("shift_exhaustive", key)
            else:
                rec.bad("shift_exhaustive", key, {"spec": spec, "ihmax": a, "labels": lab, "labels_shifted_input": lab1, "shift": 1}, "seam-dependent-partition")
    rec.extra["exhaustive_maps"] = nmaps
    rec.extra["exhaustive_subspace"] = ["all spectra over {0..a-1} with both extremes present, ihmax=a: a=3 for nk*nth<=%d, a=2 for nk*nth<=%d (every shape incl. 1xn, nx1); all unit shifts" % (ctx.n(7, 9), ctx.n(10, 12))]

    for i, rng in ctx.cases("random", ctx.n(6000, 120000)):
        random_case(ctx, rng, part)
    corpus(ctx, part)
    from wavespectra.partition import partition as pmod
    for i, rng in ctx.cases("via_ptm3", ctx.n(2500, 50000)):
        via_ptm3(ctx, rng, pmod)


def via_ptm3(ctx, rng, pmod):
    """The watershed as the partition methods see it: np_ptm3 with every detected partition requested, on strictly
    positive spectra, gives back the basins - one map is rebuilt from the partitions and held against the same
    structural model (whatever the Python layer does between the call and the native routine)."""
    rec = ctx.rec
    small = rng.random() < 0.6
    nk = int(rng.integers(1, 6 if small else 26))
    nth = int(rng.integers(1, 6 if small else 26))
    ihmax = int(rng.choice([2, 3, 5, 10, 50, 100, 100, 1000]))
    kind = str(rng.choice(["int", "smooth", "edge_peaks", "real"]))
    if kind == "int":
        spec = rng.integers(1, int(rng.integers(3, 8)), (nk, nth)).astype(np.float64)
    elif kind == "real":
        spec = rng.random((nk, nth)) + 0.05
    else:
        x = np.arange(nk)[:, None]
        y = np.arange(nth)[None, :]
        spec = np.full((nk, nth), 0.01)
        for _ in range(int(rng.integers(1, 4))):
            # "edge_peaks": systems peaking in the lowest / highest frequency row (long swell, young wind sea)
            cx = float(rng.choice([0.0, nk - 1.0])) if kind == "edge_peaks" else float(rng.uniform(0, nk))
            cy = rng.uniform(0, nth)
            dy = np.minimum(np.abs(y - cy), nth - np.abs(y - cy))
            spec = spec + rng.uniform(0.2, 5) * np.exp(-((x - cx) / rng.uniform(0.7, 4)) ** 2 - (dy / rng.uniform(0.7, 4)) ** 2)
    spec32 = np.ascontiguousarray(spec.astype(np.float32))
    spec = spec32.astype(np.float64)
    lv, near = W.levels(spec32, ihmax)
    key = "ptm3|%s|%s|ihmax=%d" % (kind, "tiny" if nk * nth <= 16 else ("small" if nk * nth <= 144 else "large"), ihmax)
    if lv is None or near or spec.min() <= 0:
        rec.skip("map_via_ptm3", "constant spectrum or a value on a rounding boundary of the level discretisation")
        return
    f = 0.04 * 1.1 ** np.arange(nk)
    th = np.arange(nth) * (360.0 / nth)
    try:
        out = np.asarray(pmod.np_ptm3(spec, spec, f, th, parts=None, ihmax=ihmax))
    except Exception as e:
        rec.bad("map_via_ptm3", key, {"spec": spec, "ihmax": ihmax, "raised": repr(e)[:300]}, "ptm3-raises")
        return
    if out.ndim != 3 or out.shape[1:] != spec.shape:
        rec.bad("map_via_ptm3", key, {"spec": spec, "ihmax": ihmax, "out_shape": list(out.shape)}, "map-shape")
        return
    owners = (out != 0).sum(0)
    lab = np.zeros(spec.shape, dtype=np.int64)
    k = 0
    for p in out:
        if p.any():
            k += 1
            lab[p != 0] = k
    if (owners != 1).any():
        rec.bad("map_via_ptm3", key, {"spec": spec, "ihmax": ihmax, "bins_in_no_partition": int((owners == 0).sum()), "bins_in_two": int((owners > 1).sum())}, "map-unlabelled-bin")
        return
    if not judge(rec, "map_via_ptm3", key, spec32, ihmax, lv, lab) or nth < 2:
        return
    # the same labelled spectrum stored from another starting direction (data and direction labels rolled together)
    # is partitioned identically: the basins move with the labels
    kk = int(rng.integers(1, nth))
    try:
        out2 = np.asarray(pmod.np_ptm3(np.roll(spec, kk, axis=1), np.roll(spec, kk, axis=1), f, np.roll(th, kk), parts=None, ihmax=ihmax))
    except Exception as e:
        rec.bad("shift_via_ptm3", key, {"spec": spec, "ihmax": ihmax, "shift": kk, "raised": repr(e)[:300]}, "ptm3-raises")
        return
    lab2 = np.zeros(spec.shape, dtype=np.int64)
    j = 0
    for p in out2:
        if p.any():
            j += 1
            lab2[p != 0] = j
    if W.shift_sets(W.as_sets(lab), kk, nth) == W.as_sets(lab2):
        rec.ok("shift_via_ptm3", key)
    else:
        rec.bad("shift_via_ptm3", key, {"spec": spec, "ihmax": ihmax, "shift": kk, "labels": lab, "labels_shifted_input": lab2}, "seam-dependent-partition")


def corpus(ctx, part):
    """Regression corpus: spectra (wave systems on a flat noise floor with a small secondary system
    on a flank) whose watershed zones are several bins thick - found by search, rare in random draws
    (about 1 in 1000-6000); every circular shift and three level counts of each."""
    import os
    z = np.load(os.path.join(os.path.dirname(os.path.dirname(os.path.abspath(__file__))), "corpus_thick_watershed.npz"))
    names = sorted(z.files)
    rec = ctx.rec
    for k, rng in ctx.cases("corpus", len(names)):
        spec = np.ascontiguousarray(z[names[k]], dtype=np.float32)
        nth = spec.shape[1]
        for ihmax in (100, 20, 1000):
            for sh in ([0] + sorted(set(int(v) for v in rng.integers(1, nth, 3)))):
                sp = np.ascontiguousarray(np.roll(spec, sh, axis=1))
                lv, near = W.levels(sp, ihmax)
                if lv is None or near:
                    continue
                judge(rec, "map_corpus", "corpus|%s|ihmax=%d" % (names[k][0], ihmax), sp, ihmax, lv, np.asarray(part(sp, ihmax)))


def judge(rec, op, key, spec, ihmax, lv, lab):
    bad = W.check_map(lv, lab)
    if bad is None:
        rec.ok(op, key, sample={"spec": spec, "ihmax": ihmax, "labels": lab} if spec.size <= 12 else None)
        return True
    reason, data = bad
    rec.bad(op, key, {"spec": spec, "ihmax": ihmax, "levels": lv, "labels": lab, "reason": reason, "data": data}, "map-" + reason)
    return False


IHMAX = [1, 2, 3, 4, 7, 10, 50, 100, 1000]


def random_case(ctx, rng, part):
    rec = ctx.rec
    big = rng.random() < 0.25
    nk = int(rng.integers(1, 41 if big else 13))
    nth = int(rng.integers(1, 41 if big else 13))
    ihmax = int(rng.choice(IHMAX))
    kind = str(rng.choice(["int", "int", "real", "smooth", "plateau", "sparse", "floor", "floor", "quantised"]))
    if kind == "int":
        a = int(rng.integers(2, 8))
        spec = rng.integers(0, a, (nk, nth)).astype(np.float32)
    elif kind == "real":
        spec = rng.random((nk, nth)).astype(np.float32)
    elif kind == "smooth":
        x = np.arange(nk)[:, None]
        y = np.arange(nth)[None, :]
        spec = np.zeros((nk, nth))
        for _ in range(int(rng.integers(1, 5))):
            cx, cy = rng.uniform(0, nk), rng.uniform(0, nth)
            dy = np.minimum(np.abs(y - cy), nth - np.abs(y - cy))
            spec += rng.uniform(0.2, 5) * np.exp(-((x - cx) / rng.uniform(0.7, 4)) ** 2 - (dy / rng.uniform(0.7, 4)) ** 2)
        spec = spec.astype(np.float32)
    elif kind in ("floor", "quantised"):
        # wave systems sitting on a flat noise floor / coarsely quantised densities: large plateaus
        # whose watershed zones are several bins thick
        if nk < 8 or nth < 8:
            nk, nth = int(rng.integers(8, 41)), int(rng.integers(8, 41))
        x = np.arange(nk)[:, None]
        y = np.arange(nth)[None, :]
        spec = np.zeros((nk, nth))
        for _ in range(int(rng.integers(2, 5))):
            cx, cy = rng.uniform(0, nk), rng.uniform(0, nth)
            dy = np.minimum(np.abs(y - cy), nth - np.abs(y - cy))
            spec += rng.uniform(0.2, 2) * np.exp(-0.5 * ((x - cx) / rng.uniform(0.8, 5)) ** 2 - 0.5 * (dy / rng.uniform(0.8, 6)) ** 2)
        if kind == "floor":
            spec = np.maximum(spec, float(rng.uniform(0.03, 0.4)))
        else:
            q = float(rng.choice([0.05, 0.1, 0.25]))
            spec = np.round(spec / q) * q
        spec = spec.astype(np.float32)
    elif kind == "plateau":
        spec = np.repeat(np.repeat(rng.integers(0, 4, ((nk + 2) // 3, (nth + 2) // 3)), 3, 0), 3, 1)[:nk, :nth].astype(np.float32)
    else:
        spec = np.zeros((nk, nth), dtype=np.float32)
        for _ in range(int(rng.integers(1, 4))):
            spec[rng.integers(nk), rng.integers(nth)] = rng.integers(1, 5)
    # energy level: exact powers of two down to ranges of 1e-8 (the routine's own "constant spectrum" floor is 1e-9)
    lvl = int(rng.choice([0, 0, 0, 0, -16, -22, -26]))
    if kind in ("int", "plateau", "sparse") and rng.random() < 0.3:
        # wave systems riding on a large uniform pedestal: every bin within 1e-6 ... 3e-5 (relative) of the peak, all values
        # distinct and exactly representable in single precision, the range far above the routine's absolute 1e-9 floor
        base = float(rng.choice([1.0, 4.0, 1024.0]))
        spec = (base * (1.0 + spec.astype(np.float64) * 2.0 ** -int(rng.choice([19, 21, 22, 23])))).astype(np.float32)
        kind += "+pedestal"
        lvl = 0
        rec.note("spectra_on_a_large_pedestal")
    spec = np.ascontiguousarray((spec.astype(np.float64) * 2.0 ** lvl).astype(np.float32))
    nk, nth = spec.shape
    szc = "tiny" if nk * nth <= 16 else ("small" if nk * nth <= 144 else "large")
    key = "rnd|%s|%s|nk%s|nth%s|ihmax=%d|level=2^%d" % (kind, szc, "1" if nk == 1 else ("2" if nk == 2 else "n"),
                                               "1" if nth == 1 else ("2" if nth == 2 else "n"), ihmax, lvl)
    lv, near = W.levels(spec, ihmax)
    lab = np.asarray(part(spec, ihmax))
    if lv is None:
        # constant spectrum: excluded by the statement (no regional maximum to speak of); the
        # routine may call it "no basin" (all 0) or "one basin" (all 1), nothing else
        if np.all(lab == 0) or np.all(lab == 1):
            rec.ok("constant_map", key)
        else:
            rec.bad("constant_map", key, {"spec": spec, "labels": lab}, "constant-spectrum-labelled")
        return
    if near:
        rec.skip("map_random", "a scaled value within 1e-6 of a rounding boundary of the level discretisation")
        return
    judge(rec, "map_random", key, spec, ihmax, lv, lab)
    # the same values handed over in another memory layout / width must give the same map
    lay = str(rng.choice(["fortran32", "strided32", "c64", "fortran64", "transposed_view"]))
    if lay == "fortran32":
        alt = np.asfortranarray(spec)
    elif lay == "strided32":
        big = np.zeros((nk, 2 * nth), dtype=np.float32)
        big[:, ::2] = spec
        alt = big[:, ::2]
    elif lay == "c64":
        alt = spec.astype(np.float64)
    elif lay == "fortran64":
        alt = np.asfortranarray(spec.astype(np.float64))
    else:
        alt = np.ascontiguousarray(spec.T).T
    try:
        laba = np.asarray(part(alt, ihmax))
        if laba.shape == lab.shape and np.array_equal(laba, lab):
            rec.ok("layout_random", "%s|%s" % (lay, szc))
        else:
            rec.bad("layout_random", "%s|%s" % (lay, szc), {"spec": spec, "ihmax": ihmax, "layout": lay, "labels": lab, "labels_other_layout": laba,
                                                            "flags": {"c": bool(alt.flags.c_contiguous), "f": bool(alt.flags.f_contiguous)}},
                    "watershed-reads-non-contiguous-memory")
    except Exception as e:
        rec.bad("layout_random", "%s|%s" % (lay, szc), {"layout": lay, "raised": repr(e)[:300]}, "watershed-rejects-array-layout")
    # all circular shifts (or a sample of them on large grids)
    ks = range(1, nth) if nth <= 12 else sorted(set(int(k) for k in rng.integers(1, nth, 6)))
    base = W.as_sets(lab)
    for k in ks:
        labk = np.asarray(part(np.ascontiguousarray(np.roll(spec, k, axis=1)), ihmax))
        if W.shift_sets(base, k, nth) == W.as_sets(labk):
            rec.ok("shift_random", key)
        else:
            rec.bad("shift_random", key, {"spec": spec, "ihmax": ihmax, "labels": lab, "labels_shifted_input": labk, "shift": k},
                    "seam-dependent-partition")
            break
