"""C17: no operation modifies the data it is given (generic purity monitor).

Before each call every argument object is deep-snapshotted (values bytes, dtype, strides, dim
order, every coordinate's values and attrs, attrs, encoding, name, base buffers of views, dask
keys + computed bytes, lists/dicts recursively); after return *or raise* the snapshot is retaken
and compared."""
import os
import shutil
import tempfile

import numpy as np

from vf import gen, ops as O
from vf import monitor
from vf.monitor import snapshot, diff_snap
from vf.oracle import native as N


def pure(rec, op, key, fn, args, mech=None):
    """Run fn() and compare snapshots of the named argument objects."""
    before = {k: snapshot(v) for k, v in args.items()}
    err = None
    try:
        r = fn()
        if hasattr(r, "compute") and op.startswith("lazy:"):
            r.compute()
    except Exception as e:
        err = e
    changed = []
    for k, v in args.items():
        d = diff_snap(before[k], snapshot(v))
        if d:
            changed.append((k, d))
    if changed:
        rec.bad(op, key, {"arguments_changed": changed[:4], "raised": repr(err)[:200] if err else None}, mech or ("argument-mutated:" + op.split(":")[-1]))
    else:
        rec.ok(op, key + ("|raised" if err is not None else ""))
    rng = FAULT.get("rng")
    if not changed and err is None and rng is not None and rng.random() < FAULT["p"]:
        faulted(rec, op, key, fn, args, before, rng)
    return err


FAULT = {"rng": None, "p": 0.2}


def faulted(rec, op, key, fn, args, before, rng):
    """The same call again with a failpoint: the k-th entry into a repository function raises. Whatever the call had done
    up to then, the caller's objects must be what they were."""
    fp = monitor.Failpoints()
    n = fp.count(fn)
    if not n:
        rec.skip("failpoint", "no repository function entered (or sys.monitoring unavailable)")
        return
    k = int(rng.integers(1, n + 1))
    seen, where, err = fp.inject(fn, k)
    if where is None:
        rec.skip("failpoint", "entry count changed between runs")
        return
    changed = []
    for name, v in args.items():
        d = diff_snap(before[name], snapshot(v))
        if d:
            changed.append((name, d))
    fam = op.split(":")[0]
    if changed:
        rec.bad("failpoint:" + fam, key, {"operation": op, "failpoint": where, "entry": k, "of": n, "arguments_changed": changed[:4], "raised": repr(err)[:200]},
                "argument-left-modified-when-a-callee-raises:" + op.split(":")[-1])
    else:
        rec.ok("failpoint:" + fam, key + "|at=" + where.split(":")[-1])


def repo_tests(ctx, mode, tests):
    """Extra workload (thorough tier, shard 0): the repository's own tests under the monitor."""
    import json, os, subprocess, tempfile
    from vf import repo_root, VERIF_ROOT, PYTHON
    from wavespectra.partition import specpart
    rec = ctx.rec
    fd, out = tempfile.mkstemp(suffix=".json")
    os.close(fd)
    env = dict(os.environ, PYTHONPATH=VERIF_ROOT + os.pathsep + repo_root(), VF_SO=specpart.__file__, VF_PLUGIN_OUT=out, VF_PLUGIN_MODE=mode, MPLBACKEND="Agg")
    try:
        subprocess.run([PYTHON, "-m", "pytest", "-q", "-p", "no:cacheprovider", "-p", "vf.pytest_plugin", "-x", "--timeout=900"] + tests,
                       cwd=repo_root(), env=env, capture_output=True, text=True, timeout=3000)
        res = json.load(open(out))
    except Exception as e:
        rec.skip("repo_tests", "could not run the repository tests under the monitor: %r" % (e,))
        return
    finally:
        if os.path.exists(out):
            os.remove(out)
    for op, n in res["ok"].items():
        for _ in range(n):
            rec.ok(op, "repository test-suite workload")
    for b in res["bad"]:
        rec.bad(b["op"], b["test"], b["detail"], b["mech"])
    for k, n in res["skip"].items():
        rec.skip(k, "x%d" % n)


def utilities(ctx, rng, xr):
    """The public helper functions of wavespectra.core.utils called directly with caller-owned objects (DataArray and
    Dataset spectra, plain ndarrays with and without missing bins, forcing arrays)."""
    from wavespectra.core import utils
    rec = ctx.rec
    nf, nd = int(rng.choice([4, 7, 11])), int(rng.choice([8, 12, 24]))
    f = np.linspace(0.05, 0.4, nf) if rng.random() < 0.5 else 0.04 * 1.15 ** np.arange(nf)
    th = np.arange(nd) * (360.0 / nd)
    lnames, lsizes = gen.lead_dims(rng, nlead=int(rng.choice([0, 1, 2])), maxsize=3)
    A, _ = gen.stack_spectra(rng, f, th, lsizes, cls="multimodal")
    da = gen.make_da(A, f, th, lnames, lsizes)
    back = str(rng.choice(["numpy", "view", "dask"]))
    buf = None
    if back == "view":
        buf = np.zeros((2,) + da.shape)
        buf[1] = da.values
        da = da.copy(data=buf[1])
    elif back == "dask":
        da = da.chunk({d_: 1 for d_ in lnames[:1]})
    ds = da.to_dataset(name="efth")
    ds.attrs["title"] = "caller's dataset"
    which = str(rng.choice(["scaled", "scaled", "interp_spec", "interp_spec", "regrid_spec", "smooth_spec", "winds", "dispersion", "unique_times", "waveage"]))
    args = {"da": da, "ds": ds}
    if buf is not None:
        args["buffer"] = buf
    if which == "scaled":
        obj = ds if rng.random() < 0.5 else da
        hs = float(rng.uniform(0.5, 4)) if rng.random() < 0.5 or not lnames else xr.DataArray(rng.uniform(0.5, 4, lsizes), dims=lnames, coords={n_: da[n_] for n_ in lnames})
        args["hs"] = hs
        key = "scaled|%s|%s|hs=%s" % ("Dataset" if obj is ds else "DataArray", back, type(hs).__name__)

        def fn():
            r = utils.scaled(obj, hs)
            return r.compute() if hasattr(r, "compute") else r
    elif which == "interp_spec":
        E = np.array(gen.spectrum(rng, f, th, "multimodal")[0])
        holes = str(rng.choice(["none", "nan", "inf"]))
        if holes != "none":
            E[rng.random(E.shape) < 0.1] = np.nan if holes == "nan" else np.inf
        if rng.random() < 0.3:
            big = np.zeros((nf + 2, nd)); big[1:-1] = E; E = big[1:-1]          # a view of a caller-owned buffer
            args["interp_buffer"] = big
        branch = str(rng.choice(["same", "freq_only", "dir_changed", "both"]))
        of = f if branch in ("same", "dir_changed") else np.linspace(f[0], f[-1], nf + 3)
        od = th if branch in ("same", "freq_only") else np.arange(0.0, 360.0, float(rng.choice([10.0, 20.0, 45.0])))
        infreq, indir, of, od = f.copy(), th.copy(), np.array(of), np.array(od)
        args.update(inspec=E, infreq=infreq, indir=indir, outfreq=of, outdir=od)
        key = "interp_spec|%s|holes=%s" % (branch, holes)

        def fn():
            return utils.interp_spec(E, infreq, indir, of, od)
    elif which == "regrid_spec":
        obj = ds if rng.random() < 0.5 else da
        nfq, ndr = np.linspace(f[0] * 0.8, f[-1] * 1.1, nf + 2), np.arange(0.0, 360.0, 30.0)
        args.update(freq=nfq, dir=ndr)
        key = "regrid_spec|%s|%s" % ("Dataset" if obj is ds else "DataArray", back)

        def fn():
            r = utils.regrid_spec(obj, freq=nfq, dir=ndr)
            return r.compute() if hasattr(r, "compute") else r
    elif which == "smooth_spec":
        key = "smooth_spec|%s" % back

        def fn():
            r = utils.smooth_spec(da, 3, 3)
            return r.compute() if hasattr(r, "compute") else r
    elif which == "winds":
        u, v = rng.uniform(-20, 20, (3, 4)), rng.uniform(-20, 20, (3, 4))
        if rng.random() < 0.5:
            u, v = xr.DataArray(u, dims=["time", "site"]), xr.DataArray(v, dims=["time", "site"])
        cf = bool(rng.random() < 0.5)
        args.update(u=u, v=v)
        key = "uv_to_spddir+spddir_to_uv|%s|coming_from=%s" % (type(u).__name__, cf)

        def fn():
            s_, d_ = utils.uv_to_spddir(u, v, coming_from=cf)
            return utils.spddir_to_uv(s_, d_, coming_from=cf)
    elif which == "dispersion":
        fr = da.freq if rng.random() < 0.5 else f.copy()
        dep = float(rng.uniform(2, 300)) if rng.random() < 0.5 else xr.DataArray(rng.uniform(2, 300, 3), dims=["site"])
        args.update(freq=fr, depth=dep)
        key = "wavenuma+celerity+wavelen|freq=%s|depth=%s" % (type(fr).__name__, type(dep).__name__)

        def fn():
            return utils.wavenuma(fr, dep), utils.celerity(fr, dep), utils.wavelen(fr, dep), utils.celerity(fr), utils.wavelen(fr)
    elif which == "waveage":
        wspd, wdir, dpt = xr.DataArray(rng.uniform(0, 25, 3), dims=["site"]), xr.DataArray(rng.uniform(0, 360, 3), dims=["site"]), xr.DataArray(rng.uniform(5, 200, 3), dims=["site"])
        args.update(wspd=wspd, wdir=wdir, dpt=dpt, freq=da.freq, dir=da.dir)
        key = "waveage"

        def fn():
            return utils.waveage(da.freq, da.dir, wspd, wdir, dpt, 1.7)
    else:
        t_ = np.array(["2020-01-01T00", "2020-01-01T01", "2020-01-01T01", "2020-01-01T02"], dtype="datetime64[ns]")
        dst = xr.Dataset({"efth": (("time", "freq", "dir"), rng.random((4, nf, nd)))}, coords={"time": t_, "freq": f, "dir": th})
        args = {"ds_with_duplicate_times": dst}
        key = "unique_times"

        def fn():
            return utils.unique_times(dst)
    pure(rec, "utility:" + which, key, fn, args)


def run(ctx):
    import xarray as xr
    import wavespectra

    tmp = tempfile.mkdtemp(prefix="vf-c17-")
    try:
        for i, rng in ctx.cases("accessor", ctx.n(260, 6000)):
            FAULT["rng"] = rng
            accessor_ops(ctx, rng, xr)
        for i, rng in ctx.cases("sel", ctx.n(200, 5000)):
            FAULT["rng"] = rng
            selection(ctx, rng, xr)
        for i, rng in ctx.cases("construct", ctx.n(160, 4000)):
            FAULT["rng"] = rng
            construct(ctx, rng, xr, wavespectra)
        for i, rng in ctx.cases("readers", ctx.n(400, 8000)):
            FAULT["rng"] = rng
            readers(ctx, rng, xr, wavespectra)
        for i, rng in ctx.cases("file_readers", ctx.n(48, 1000)):
            d = tempfile.mkdtemp(dir=tmp)
            try:
                file_readers(ctx, rng, xr, wavespectra, d)
            finally:
                shutil.rmtree(d, ignore_errors=True)
        for i, rng in ctx.cases("tracking", ctx.n(48, 1000)):
            FAULT["rng"] = rng
            tracking(ctx, rng, xr)
        for i, rng in ctx.cases("utilities", ctx.n(240, 5000)):
            FAULT["rng"] = rng
            utilities(ctx, rng, xr)
        for i, rng in ctx.cases("writers", ctx.n(160, 4000)):
            d = tempfile.mkdtemp(dir=tmp)
            FAULT["rng"] = rng
            try:
                writers(ctx, rng, xr, wavespectra, d)
            finally:
                shutil.rmtree(d, ignore_errors=True)
    finally:
        shutil.rmtree(tmp, ignore_errors=True)
    if ctx.thorough and ctx.shard == 0 and ctx.only is None:
        repo_tests(ctx, "c17", ["tests/core", "tests/test_partition.py", "tests/construct", "tests/io/test_swan_ascii.py", "tests/io/test_triaxys.py"])


def make_x(rng, xr, backing=None):
    nf = int(rng.choice([4, 6, 9]))
    f, fm = gen.freq_grid(rng, nf=nf)
    th, dd, dmeta = gen.dir_grid(rng, nd=int(rng.choice([4, 8, 12])), full=True, exact=True)
    lnames, lsizes = gen.lead_dims(rng, nlead=int(rng.choice([0, 1, 2])), maxsize=3)
    A, _ = gen.stack_spectra(rng, f, th, lsizes, cls="multimodal")
    x = gen.make_da(A, f, th, lnames, lsizes, dtype=str(rng.choice(["float64", "float32"])))
    if rng.random() < 0.4:
        x = x.roll(dir=int(rng.integers(1, len(th))), roll_coords=True)
    x.attrs["history"] = "caller-owned"
    x["freq"].attrs["units"] = "Hz"
    x.encoding["caller"] = 1
    backing = backing or str(rng.choice(["numpy", "numpy", "view", "dask"]))
    owner = None
    if rng.random() < 0.15:
        # a few missing bins (masked land / ice points, despiked records): whatever an operation makes of them - a result
        # with NaN, an exception - the caller's missing bins stay missing
        v_ = np.array(x.values)
        v_[rng.random(v_.shape) < 0.08] = np.nan
        x = x.copy(data=v_)
        backing += "+missing-bins"
    if backing.startswith("view"):
        big = np.zeros(tuple(s + 2 for s in x.shape), dtype=x.dtype)
        view = big[tuple(slice(1, -1) for _ in x.shape)]
        view[...] = x.values
        x = x.copy(data=view)
        owner = big
    elif backing.startswith("dask"):
        x = x.chunk({d: max(1, x.sizes[d] // 2) for d in x.dims if d not in ("freq", "dir")} or {"freq": -1})
    return x, backing, owner


def accessor_ops(ctx, rng, xr):
    rec = ctx.rec
    x, backing, owner = make_x(rng, xr)
    ops = O.build()
    aux = O.make_aux(rng, x, xr)
    if rng.random() < 0.15 and getattr(aux.get("dpt"), "size", 1) > 1:
        # dry / land points in the caller's depth array (zero or negative depth): whatever the operation returns there,
        # the caller's array keeps them
        aux = dict(aux)
        dv_ = np.array(aux["dpt"].values, dtype="float64")
        dv_.reshape(-1)[int(rng.integers(dv_.size))] = float(rng.choice([0.0, -1.5]))
        aux["dpt"] = aux["dpt"].copy(data=dv_)
        backing += "+dry-points"
    use_ds = rng.random() < 0.4
    ds = x.to_dataset(name="efth")
    names = list(rng.choice(list(ops), size=ctx.n(9, 14), replace=False))
    for name in names:
        op = ops[name]
        if x.sizes["freq"] < op.min_nf:
            continue
        target = ds if (use_ds and op.kind != "parts") else x
        args = {"self": target, "aux": aux}
        if owner is not None:
            args["owner_buffer"] = owner

        def call(op=op, target=target):
            if target is ds:
                class P:  # route .spec to the Dataset accessor
                    spec = ds.spec
                r = op.fn(P, aux)
            else:
                r = op.fn(target, aux)
            if hasattr(r, "compute"):
                r.compute()
            elif isinstance(r, tuple):
                [q.compute() for q in r if hasattr(q, "compute")]
            return r

        pure(rec, "accessor:" + name, "%s|%s|%s" % (name, backing, "Dataset" if target is ds else "DataArray"), call, args)
    # frequency spectra E(f) (no direction dimension), held by the caller as an in-memory array
    if rng.random() < 0.5:
        x1 = x.spec.oned()
        x1 = x1.compute() if hasattr(x1, "compute") else x1
        x1 = x1.copy(deep=True)
        for nm1, fn1 in (("hs", lambda: x1.spec.hs()), ("hrms", lambda: x1.spec.hrms()), ("tm01", lambda: x1.spec.tm01()), ("tm02", lambda: x1.spec.tm02()),
                         ("tp", lambda: x1.spec.tp()), ("sw", lambda: x1.spec.sw()), ("goda", lambda: x1.spec.goda()),
                         ("stats", lambda: x1.spec.stats(["hs", "hrms", "tm02", "tp"])), ("oned", lambda: x1.spec.oned()),
                         ("split", lambda: x1.spec.split(fmin=float(x1.freq.min()) * 1.1))):
            def call1(fn1=fn1):
                r_ = fn1()
                if hasattr(r_, "compute"):
                    r_.compute()
                return r_
            pure(rec, "accessor1d:" + nm1, "%s|1d" % nm1, call1, {"self": x1})
    # a sequence of operations applied to the same object: checked once more at the end
    pure(rec, "accessor:sequence", backing, lambda: [x.spec.hs(), x.spec.smooth(3, 3), x.spec.rotate(33.0), x.spec.oned()], {"self": x})


def selection(ctx, rng, xr):
    rec = ctx.rec
    ns = int(rng.integers(2, 9))
    f = np.linspace(0.05, 0.3, 4)
    th = np.arange(0, 360, 90.0)
    conv = str(rng.choice(["0-360", "-180-180"]))
    lon = rng.uniform(0, 360, ns) if conv == "0-360" else rng.uniform(-180, 180, ns)
    lat = rng.uniform(-60, 60, ns)
    E = rng.random((2, ns, 4, 4))
    ds = xr.Dataset({"efth": (("time", "site", "freq", "dir"), E)}, coords={"time": [0, 1], "site": np.arange(ns), "freq": f, "dir": th})
    ds["lon"] = (("site",), lon)
    ds["lat"] = (("site",), lat)
    ds.attrs["title"] = "stations"
    if rng.random() < 0.6:
        # forcing shared by all stations (no site dimension) with the caller's own attributes, scalar depth
        ds["wspd"] = (("time",), rng.uniform(1, 20, 2), {"units": "knots", "source": "anemometer 3", "standard_name": "caller_wind"})
        ds["wdir"] = (("time",), rng.uniform(0, 360, 2), {"units": "deg true", "comment": "caller"})
        ds["dpt"] = ((), float(rng.uniform(5, 500)), {"units": "fathoms"})
        ds["efth"].attrs.update({"units": "caller units", "note": "kept"})
        ds["lon"].attrs.update({"units": "caller deg"})
    method = str(rng.choice(["nearest", "idw", "bbox", "none"]))
    nq = int(rng.integers(1, 4))
    qconv = str(rng.choice(["0-360", "-180-180"]))
    qlon = (lon[rng.integers(0, ns, nq)] + rng.uniform(-0.5, 0.5, nq))
    qlon = qlon % 360 if qconv == "0-360" else ((qlon + 180) % 360) - 180
    qlat = lat[rng.integers(0, ns, nq)] + rng.uniform(-0.5, 0.5, nq)
    as_list = rng.random() < 0.5
    lons = list(map(float, qlon)) if as_list else np.array(qlon)
    lats = list(map(float, qlat)) if as_list else np.array(qlat)
    dl, dla = (np.array(lon), np.array(lat)) if rng.random() < 0.5 else (None, None)
    kw = {"tolerance": float(rng.uniform(0.5, 30))}
    if method == "idw":
        kw["max_sites"] = int(rng.integers(1, 5))
    if method == "nearest":
        kw["unique"] = bool(rng.random() < 0.3)
    key = "sel|%s|dset=%s|query=%s|%s|precomputed=%s" % (method, conv, qconv, "list" if as_list else "array", dl is not None)
    args = {"dataset": ds, "lons": lons, "lats": lats, "kwargs": kw}
    if dl is not None:
        args.update(dset_lons=dl, dset_lats=dla)
    if method == "none":
        lons2, lats2 = [float(lon[0])], [float(lat[0])]
        args.update(lons=lons2, lats=lats2)
        pure(rec, "sel:exact", key, lambda: ds.spec.sel(lons2, lats2, method=None, dset_lons=dl, dset_lats=dla), args)
    else:
        pure(rec, "sel:" + method, key, lambda: ds.spec.sel(lons, lats, method=method, dset_lons=dl, dset_lats=dla, **kw), args)


def construct(ctx, rng, xr, ws):
    rec = ctx.rec
    from wavespectra.construct import frequency, direction, construct_partition
    f = np.linspace(0.04, 0.4, int(rng.integers(5, 20)))
    th = np.arange(0, 360, float(rng.choice([10.0, 15.0, 30.0])))
    if rng.random() < 0.35:
        # coordinate arrays as files hold them: directions descending or starting anywhere on the circle, frequencies descending
        th = th[::-1].copy() if rng.random() < 0.5 else np.roll(th, int(rng.integers(1, len(th))))
        if rng.random() < 0.3:
            f = f[::-1].copy()
    fda = xr.DataArray(f, dims=["freq"], coords={"freq": f})
    tda = xr.DataArray(th, dims=["dir"], coords={"dir": th})
    n = int(rng.integers(1, 4))
    par = lambda lo, hi: xr.DataArray(rng.uniform(lo, hi, n), dims=["part"], coords={"part": np.arange(n)})
    hs, fp, gam, dm, dspr, dep, gw = par(0.5, 5), par(0.06, 0.3), par(1, 5), par(0, 360), par(10, 60), par(5, 100), par(0.01, 0.08)
    which = str(rng.choice(["jonswap", "pierson_moskowitz", "tma", "gaussian", "cartwright", "asymmetric", "construct_partition", "conditional",
                            "partition_and_reconstruct", "partition_and_reconstruct", "plot", "plot"]))
    if which == "partition_and_reconstruct":
        from wavespectra.construct import partition_and_reconstruct
        x, backing, owner = make_x(rng, xr, backing="numpy")
        ds = x.to_dataset(name="efth")
        nparts = int(rng.integers(2, 4))
        shapes = ["jonswap", "pierson_moskowitz", "gaussian"]
        fn_ = str(rng.choice(shapes)) if rng.random() < 0.5 else [str(v) for v in rng.choice(shapes, nparts)]
        dn_ = "cartwright" if rng.random() < 0.5 else ["cartwright"] * nparts
        ud_ = [["alpha"], [], ["alpha", "gamma"]][int(rng.integers(3))]
        a = {"dset": ds, "freq_name": fn_, "dir_name": dn_, "use_defaults": ud_, "signature_defaults": partition_and_reconstruct.__defaults__}
        give = bool(rng.random() < 0.6)
        kw = {"use_defaults": ud_} if give else {}
        pure(rec, "construct:partition_and_reconstruct", "shapes=%s|use_defaults=%s" % ("list" if isinstance(fn_, list) else fn_, "given" if give else "default"),
             lambda: partition_and_reconstruct(ds, parts=nparts, freq_name=fn_, dir_name=dn_, partition_method=str(rng.choice(["ptm3", "ptm1"])) if False else "ptm3", **kw), a)
        return
    if which == "plot":
        import matplotlib
        matplotlib.use("Agg")
        import matplotlib.pyplot as plt
        x, backing, owner = make_x(rng, xr, backing="numpy")
        one = x.isel({d_: 0 for d_ in x.dims if d_ not in ("freq", "dir")})
        ck = {"shrink": 0.8} if rng.random() < 0.6 else {"shrink": 0.7, "label": "caller"}
        kw = {"kind": str(rng.choice(["contourf", "contour", "pcolormesh"])), "normalised": bool(rng.random() < 0.6), "cbar_kwargs": ck}
        if rng.random() < 0.3:
            kw["cbar_ticks"] = [0.1, 0.5, 1.0]
        if kw["kind"] == "contour":
            kw.pop("cbar_kwargs")
            kw["add_colorbar"] = False
        a = {"self": one, "kwargs": kw, "cbar_kwargs": ck}
        try:
            pure(rec, "accessor:plot", "plot|%s|normalised=%s|ticks=%s" % (kw["kind"], kw["normalised"], "cbar_ticks" in kw), lambda: one.spec.plot(**kw), a)
        finally:
            plt.close("all")
        return
    use_da = rng.random() < 0.5
    fq = fda if use_da else f
    dq = tda if use_da else th
    key = "%s|coords=%s" % (which, "DataArray" if use_da else "ndarray")
    if which == "jonswap":
        a = {"freq": fq, "fp": fp, "gamma": gam, "hs": hs}
        pure(rec, "construct:jonswap", key, lambda: frequency.jonswap(**a), a)
    elif which == "pierson_moskowitz":
        a = {"freq": fq, "fp": fp, "hs": hs}
        pure(rec, "construct:pierson_moskowitz", key, lambda: frequency.pierson_moskowitz(**a), a)
    elif which == "tma":
        a = {"freq": fq, "fp": fp, "dep": dep, "gamma": gam, "hs": hs}
        pure(rec, "construct:tma", key, lambda: frequency.tma(**a), a)
    elif which == "gaussian":
        a = {"freq": fq, "hs": hs, "fp": fp, "gw": gw}
        pure(rec, "construct:gaussian", key, lambda: frequency.gaussian(**a), a)
    elif which == "cartwright":
        a = {"dir": dq, "dm": dm, "dspr": dspr}
        pure(rec, "construct:cartwright", key, lambda: direction.cartwright(**a), a)
    elif which == "asymmetric":
        a = {"dir": dq, "freq": fq, "dm": dm, "dpm": dm + 5, "dspr": dspr, "dpspr": dspr - 2, "fm": fp * 1.1, "fp": fp}
        pure(rec, "construct:asymmetric", key, lambda: direction.asymmetric(**a), a)
    elif which == "conditional":
        cond = xr.DataArray(rng.random(n) < 0.5, dims=["part"], coords={"part": np.arange(n)})
        kw = {"gamma": gam, "gw": gw}
        a = {"freq": fq, "hs": hs, "fp": fp, "cond": cond, "kwargs": kw}
        pure(rec, "construct:conditional", key, lambda: frequency.conditional(freq=fq, hs=hs, fp=fp, cond=cond, **kw), a)
    else:
        fk = {"freq": fq, "fp": fp, "gamma": gam, "hs": hs}
        dk = {"dir": dq, "dm": dm, "dspr": dspr}
        a = {"freq_kwargs": fk, "dir_kwargs": dk}
        pure(rec, "construct:construct_partition", key, lambda: construct_partition("jonswap", "cartwright", fk, dk), a)


def readers(ctx, rng, xr, ws):
    rec = ctx.rec
    from wavespectra.input import dataset as dmod
    from wavespectra.input import ww3, ncswan, wwm, era5, ndbc
    model = str(rng.choice(["ww3", "ncswan", "wwm", "era5", "ndbc"]))
    ds, t = getattr(N, model)(rng)
    ds.attrs["source"] = "caller"
    via = str(rng.choice(["read_dataset", "from"]))
    names = "native"
    if model in ("ww3", "ncswan") and rng.random() < 0.35:
        # a dataset whose variables already carry the wavespectra names (e.g. renamed by the caller,
        # or written by to_ww3 and reopened with a mapping): nothing is left to rename inside the helper
        mp = {"ww3": {"frequency": "freq", "direction": "dir", "station": "site", "longitude": "lon", "latitude": "lat", "wnd": "wspd", "wnddir": "wdir"},
              "ncswan": {"frequency": "freq", "direction": "dir", "points": "site", "density": "efth", "longitude": "lon", "latitude": "lat", "depth": "dpt"}}[model]
        ds = ds.rename({k: v for k, v in mp.items() if k in ds.variables or k in ds.dims})
        via, names = "from", "already-wavespectra"
    if rng.random() < 0.3:
        ds = ds.chunk()
    fn = {"ww3": ww3.from_ww3, "ncswan": ncswan.from_ncswan, "wwm": wwm.from_wwm, "era5": era5.from_era5, "ndbc": ndbc.from_ndbc}[model]
    key = "%s|%s|%s|%s" % (model, via, "dask" if ds.chunks else "numpy", names)

    def call():
        r = dmod.read_dataset(ds) if via == "read_dataset" else fn(ds)
        if hasattr(r, "compute"):
            r.compute()
        return r
    mech = None
    if model in ("ww3", "ncswan"):
        mech = "reader-helper-scales-callers-efth-in-place"
    pure(rec, "reader:" + model, key, call, {"native_dataset": ds}, mech=mech)


def file_readers(ctx, rng, xr, ws, d):
    """File readers given caller-owned option objects (chunks dictionaries, file lists)."""
    rec = ctx.rec
    from vf.checks.c11 import make_ds
    ds, kinds, order = make_ds(rng, xr, "ww3")
    ds = ds.fillna(0.0)
    which = str(rng.choice(["ww3", "wavespectra", "swan_list", "json"]))
    spell = str(rng.choice(["wavespectra", "native", "mixed", "unknown"]))
    if which == "ww3":
        path = os.path.join(d, "f_ww3.nc")
        ds.spec.to_ww3(path)
        chunks = {"wavespectra": {"time": 1, "site": 1, "freq": 2, "dir": 2}, "native": {"time": 1, "station": 1, "frequency": 2, "direction": 2},
                  "mixed": {"time": 1, "station": 1, "freq": 2}, "unknown": {"time": 1, "nope": 3, "freq": 2}}[spell]
        pure(rec, "file_reader:read_ww3", "chunks=%s" % spell, lambda: ws.read_ww3(path, chunks=chunks).load(), {"chunks": chunks})
    elif which == "wavespectra":
        path = os.path.join(d, "f.nc")
        ds.spec.to_netcdf(path, ncformat="NETCDF3_64BIT", compress=False, packed=False)
        chunks = {"time": 1, "freq": 2} if spell != "unknown" else {"time": 1, "nope": 2}
        pure(rec, "file_reader:read_wavespectra", "chunks=%s" % spell, lambda: ws.read_wavespectra(path, chunks=chunks).load(), {"chunks": chunks})
    elif which == "swan_list":
        p1, p2 = os.path.join(d, "b.spec"), os.path.join(d, "a.spec")
        ds.spec.to_swan(p1)
        ds.spec.to_swan(p2)
        files = [p1, p2]
        pure(rec, "file_reader:read_swans", "list", lambda: __import__('wavespectra.input.swan', fromlist=['read_swans']).read_swans(files, int_freq=False), {"files": files})
    else:
        path = os.path.join(d, "f.json")
        ds.spec.to_json(path)
        pure(rec, "file_reader:read_json", "path", lambda: ws.read_json(path), {"path": path})


def tracking(ctx, rng, xr):
    """ptm1_track / track_partitions with calm records (wind exactly zero) in caller-owned numpy arrays."""
    from wavespectra.partition import tracking as T
    rec = ctx.rec
    f = np.linspace(0.04, 0.4, 10)
    th = np.arange(0, 360, 45.0)
    nt, ns = int(rng.integers(2, 6)), int(rng.integers(1, 3))
    lsz = [nt] if ns == 1 else [nt, ns]
    lnm = ["time"] if ns == 1 else ["time", "site"]
    A, _ = gen.stack_spectra(rng, f, th, lsz, cls="multimodal")
    x = gen.make_da(A, f, th, lnm, lsz)
    co = {n: x[n] for n in lnm}
    wv = rng.uniform(0, 15, lsz)
    wv.reshape(-1)[rng.choice(wv.size, size=max(1, wv.size // 3), replace=False)] = 0.0      # calm records
    buf = wv.copy()
    w = xr.DataArray(buf, dims=lnm, coords=co)
    wd = xr.DataArray(rng.uniform(0, 360, lsz), dims=lnm, coords=co)
    dp = xr.DataArray(np.full(lsz, 40.0), dims=lnm, coords=co)
    args = {"spectra": x, "wspd": w, "wdir": wd, "dpt": dp, "wspd_buffer": buf}
    if rng.random() < 0.5:
        pure(rec, "tracking:ptm1_track", "lead=%d" % len(lnm), lambda: x.spec.partition.ptm1_track(w, wd, dp, swells=2).compute(), args)
    else:
        try:
            parts = x.spec.partition.ptm1(w, wd, dp, swells=2)
            st = parts.spec.stats(["fp", "dpm"])
        except Exception as e:
            rec.skip("tracking:track_partitions", "set-up raised %s" % type(e).__name__)
            return
        args.update(stats=st)
        pure(rec, "tracking:track_partitions", "lead=%d" % len(lnm), lambda: T.track_partitions(st, w).compute(), args)


def writers(ctx, rng, xr, ws, d):
    rec = ctx.rec
    from vf.checks.c11 import make_ds
    fmt = str(rng.choice(["swan", "swan_grid", "octopus", "json", "netcdf", "netcdf_grid", "ww3", "funwave", "orcaflex"]))
    ds, kinds, order = make_ds(rng, xr, fmt if fmt != "orcaflex" else "swan")
    if rng.random() < 0.3:
        # measured / interpolated spectra can carry slightly negative densities: a writer must not "repair" the caller's data
        v_ = ds["efth"].values
        if v_.flags.writeable and v_.size:
            fl_ = v_.reshape(-1)
            for j_ in rng.choice(fl_.size, size=min(fl_.size, 6), replace=False):
                fl_[j_] = -0.01 * abs(fl_[j_]) - 1e-6 if np.isfinite(fl_[j_]) else fl_[j_]
            ds["efth"].values = fl_.reshape(v_.shape)
    ds.attrs["title"] = "caller"
    ds["efth"].encoding["caller"] = True
    ds["time"].encoding["units"] = "hours since 2000-01-01"
    lons = np.array([170.0] * ds.sizes.get("site", 1))
    key = fmt
    if fmt not in ("orcaflex", "funwave") and rng.random() < 0.35:
        # a lazily opened dataset of which only some variables were loaded: spectra in memory next to dask-backed forcing,
        # or the other way round
        lead_ = [d_ for d_ in ds["efth"].dims if d_ not in ("freq", "dir")]
        shp_ = tuple(ds.sizes[d_] for d_ in lead_)
        ds["wspd"] = (tuple(lead_), rng.uniform(0, 25, shp_))
        ds["dpt"] = (tuple(lead_), rng.uniform(5, 300, shp_))
        which = str(rng.choice(["forcing-lazy", "spectra-lazy", "one-forcing-lazy"]))
        one_ = {d_: 1 for d_ in lead_}
        if which == "forcing-lazy":
            ds["wspd"], ds["dpt"] = ds["wspd"].chunk(one_), ds["dpt"].chunk(one_)
        elif which == "one-forcing-lazy":
            ds["dpt"] = ds["dpt"].chunk(one_)
        else:
            ds["efth"] = ds["efth"].chunk(one_)
        ds["efth"].encoding["caller"] = True
        key += "|mixed-backing:" + which
        rec.note("writer_given_partly_loaded_dataset")
    path = os.path.join(d, "out")
    fq = ds.freq.values
    calls = {
        "swan": lambda: ds.spec.to_swan(path + ".spec"),
        "swan_grid": lambda: ds.spec.to_swan(path + ".spec"),
        "octopus": lambda: ds.spec.to_octopus(path + ".oct", fcut=float(fq[0] + 0.5 * (fq[-1] - fq[0]))),
        "json": lambda: ds.spec.to_json(path + ".json"),
        "netcdf": lambda: ds.spec.to_netcdf(path + ".nc", ncformat="NETCDF3_64BIT", compress=False),
        "netcdf_grid": lambda: ds.spec.to_netcdf(path + ".nc", ncformat="NETCDF3_64BIT", compress=False, packed=False),
        "ww3": lambda: ds.spec.to_ww3(path + "_ww3.nc"),
        "funwave": lambda: ds.isel(time=0, site=0, drop=True).spec.to_funwave(path + ".txt", clip=bool(rng.random() < 0.5)),
        "orcaflex": lambda: ds.isel(time=[0], site=[0]).spec.to_orcaflex(None) if False else None,
    }
    if fmt == "orcaflex":
        # OrcaFlex export of one spectrum into a (mock) model object: spectra with empty interior bins, held in the usual
        # (freq, dir) layout, direction-major, with a leading singleton, or as a view of a larger caller buffer
        from unittest.mock import MagicMock
        one = ds.isel(time=[0], site=[0])[["efth"]]
        if "lat" in one.dims:
            return
        v = np.array(one["efth"].transpose("time", "site", "freq", "dir").values, dtype="float64")      # (datasets come in any dimension order)
        v = np.where(np.isfinite(v), np.abs(v), 0.0) + 0.05
        v[..., 1:-1:2, :] = 0.0                                  # empty interior frequency bins
        lay = str(rng.choice(["freq_dir", "dir_freq", "lead_dir_freq", "view"]))
        f_, th_ = one.freq.values, one.dir.values
        if lay == "freq_dir":
            o = xr.DataArray(np.ascontiguousarray(v[0, 0]), dims=["freq", "dir"], coords={"freq": f_, "dir": th_}, name="efth")
        elif lay == "dir_freq":
            o = xr.DataArray(np.ascontiguousarray(v[0, 0].T), dims=["dir", "freq"], coords={"freq": f_, "dir": th_}, name="efth")
        elif lay == "lead_dir_freq":
            o = xr.DataArray(np.ascontiguousarray(np.swapaxes(v[0], -1, -2)), dims=["time", "dir", "freq"], coords={"time": one.time.values, "freq": f_, "dir": th_}, name="efth")
        else:
            big = np.zeros((len(th_), 2 * len(f_)))
            big[:, ::2] = v[0, 0].T
            o = xr.DataArray(big[:, ::2].T, dims=["freq", "dir"], coords={"freq": f_, "dir": th_}, name="efth")
        target = o.to_dataset() if rng.random() < 0.5 else o
        pure(rec, "writer:orcaflex", "orcaflex|%s|%s" % (lay, type(target).__name__), lambda: target.spec.to_orcaflex(MagicMock()), {"dataset": target})
        return
    if rng.random() < 0.25:
        # writes that fail (no NetCDF-4 backend here, missing directory, unknown format): the caller's dataset, its
        # attributes and encodings must be what they were
        nodir = os.path.join(d, "no-such-dir", "out")
        calls = {
            "swan": lambda: ds.spec.to_swan(nodir + ".spec"),
            "swan_grid": lambda: ds.spec.to_swan(nodir + ".spec"),
            "octopus": lambda: ds.spec.to_octopus(nodir + ".oct", fcut=float(fq[0] + 0.5 * (fq[-1] - fq[0]))),
            "json": lambda: ds.spec.to_json(nodir + ".json"),
            "netcdf": lambda: ds.spec.to_netcdf(path + ".nc") if rng.random() < 0.5 else ds.spec.to_netcdf(nodir + ".nc", ncformat="NETCDF3_64BIT", compress=False),
            "netcdf_grid": lambda: ds.spec.to_netcdf(path + ".nc", ncformat="NETCDF9", compress=False),
            "ww3": lambda: ds.spec.to_ww3(nodir + "_ww3.nc"),
            "funwave": lambda: ds.isel(time=0, site=0, drop=True).spec.to_funwave(nodir + ".txt"),
        }
        key += "|failing"
    args = {"dataset": ds}
    pure(rec, "writer:" + fmt.replace("_grid", ""), key, calls[fmt], args)
