"""C18: results reflect the object's current contents, not earlier calls (history monitor).

Process A (the worker) runs a seeded random history - accessor calls, in-place edits, partitions
on other grid shapes, unknown statistic names, readers - then one observed operation. The
observed operation is also run on a freshly constructed object with the same contents inside a
forked child of a server that has only ever imported the library (vf/zygote.py). The two
results must be identical (values, coordinates, names, attributes)."""
import os

import numpy as np

from vf import gen, hist, repo_root
from vf.zygote import Client

STEPS = ["call", "call", "call", "edit_efth", "edit_dir", "edit_freq", "edit_dir_via_coords", "edit_freq_via_coords", "edit_values_inplace", "partition_other", "partition_transposed",
         "partition_same_size", "ptm12_same_size_other_grid", "ptm12_same_size_other_grid", "fit", "unknown_stat", "crsd_other", "reader", "attr_lookup", "call_on_copy", "dataset_accessor_touch", "reconstruct_other",
         "partition_same_shape_other_levels", "partition_same_shape_other_levels", "write", "write", "write_other", "write_other"]


PTM_WIND = (14.0, 200.0, 30.0)      # fixed wind speed / direction / depth shared by history and observed ptm1/ptm2


def mk_obs(rng, f, th):
    name = str(rng.choice(hist.OBSERVED))
    kw = {}
    if name == "stats":
        kw["stats"] = [str(s) for s in rng.choice(["hs", "tm01", "dm", "dspr", "tp", "crsd", "goda"], size=3, replace=False)]
    elif name == "interp":
        kw = {"freq": np.linspace(f.min() * 0.8, f.max() * 1.05, 6), "dir": np.arange(0, 360, 40.0)}
    elif name == "rotate":
        kw = {"angle": float(rng.choice([30.0, 45.0, -77.0, 360.0]))}
    elif name == "momf":
        kw = {"n": int(rng.integers(0, 3))}
    elif name in ("split", "stats_limits"):
        kw = {"fmin": float(f.min() + 0.1 * (f.max() - f.min())), "fmax": float(f.min() + 0.8 * (f.max() - f.min()))}
        if name == "stats_limits" and rng.random() < 0.5:
            kw.update(dmin=45.0, dmax=300.0)
    elif name == "ptm3":
        kw = {"parts": int(rng.integers(1, 4)), "ihmax": int(rng.choice([4, 20, 100, 100, 300]))}
    elif name == "ptm4":
        kw = {"wspd": float(rng.uniform(3, 25)), "wdir": float(rng.uniform(0, 360)), "dpt": float(rng.uniform(5, 500))}
    return {"name": name, "kw": kw}


def run(ctx):
    import xarray as xr
    import wavespectra
    from wavespectra.core.attributes import attrs
    from wavespectra.partition import specpart

    # numpy's default error state (the worker silences it for the other checks): warning-only operations must
    # really warn, so that a leaked process-global warning filter is observable
    np.seterr(divide="warn", over="warn", invalid="warn", under="ignore")
    so = specpart.__file__
    cl = Client(so)
    samples = os.path.join(repo_root(), "tests", "sample_files")
    try:
        for i, rng in ctx.cases("histories", ctx.n(420, 12000)):
            one(ctx, rng, xr, wavespectra, attrs, cl, samples)
        # per-object / per-argument memoisation: the observed call itself, then one in-place edit, then the observation
        for i, rng in ctx.cases("memo", ctx.n(260, 6000)):
            edit = str(rng.choice([s_ for s_ in STEPS if s_.startswith("edit_")]))
            one(ctx, rng, xr, wavespectra, attrs, cl, samples, forced=["same_as_observed", edit])
        # writers after exports of other datasets with other layouts (templates / values carried from one export to the next)
        for i, rng in ctx.cases("exports", ctx.n(200, 5000)):
            one(ctx, rng, xr, wavespectra, attrs, cl, samples, forced=["write_other"] * int(rng.integers(1, 3)),
                obs_names=["to_ww3", "to_ww3", "to_netcdf", "to_swan", "to_json", "to_octopus"])
    finally:
        cl.close()


def attrs_fingerprint(attrs):
    return (len(attrs.ATTRS), tuple(sorted(k for k in attrs.ATTRS if isinstance(attrs.ATTRS.get(k), dict) and len(attrs.ATTRS.get(k)) == 0)))


def one(ctx, rng, xr, wavespectra, attrs, cl, samples, forced=None, obs_names=None):
    rec = ctx.rec
    nf = int(rng.choice([4, 6, 9]))
    nd = int(rng.choice([4, 8, 12]))
    f, fm = gen.freq_grid(rng, nf=nf)
    th, dd, dmeta = gen.dir_grid(rng, nd=nd, full=True, exact=True)
    lnames, lsizes = gen.lead_dims(rng, nlead=int(rng.choice([0, 1, 1, 2])), maxsize=3)
    if obs_names is not None:
        # the writers want a complete station dataset: records, sites and their positions
        lnames, lsizes = ["time", "site"], [int(rng.choice([1, 1, 2, 5])), int(rng.integers(1, 3))]
    A, _ = gen.stack_spectra(rng, f, th, lsizes, cls="multimodal")
    da = gen.make_da(A, f, th, lnames, lsizes)
    use_ds = rng.random() < 0.5 or obs_names is not None
    obj = da.to_dataset(name="efth") if use_ds else da
    if obs_names is not None:
        obj["lon"] = (("site",), np.round(rng.uniform(0, 359, lsizes[1]), 4))
        obj["lat"] = (("site",), np.round(rng.uniform(-60, 60, lsizes[1]), 4))
    nsteps = int(rng.integers(1, 9))
    trace = []
    a0 = attrs_fingerprint(attrs)
    # the observed operation (with its arguments) is fixed first, so that the history can contain the very same call
    # before later edits (results memoised per object / per argument tuple)
    obs = mk_obs(rng, f, th) if obs_names is None else {"name": str(rng.choice(obs_names)), "kw": {}}
    for s in range(nsteps if forced is None else len(forced)):
        step = str(rng.choice(STEPS + ["same_as_observed", "same_as_observed"])) if forced is None else forced[s]
        trace.append(step)
        try:
            if step == "same_as_observed":
                r_ = hist.observe(obj, obs)
                del r_
            else:
                do_step(step, rng, xr, wavespectra, attrs, obj, f, th, lnames, lsizes, samples)
        except Exception as e:
            trace[-1] = step + "!" + type(e).__name__
    a1 = attrs_fingerprint(attrs)
    if a1 != a0:
        rec.note("global_attribute_table_changed_during_history")
    key = "%s|%s|after=%s" % ("Dataset" if use_ds else "DataArray", obs["name"], "+".join(sorted(set(t.split("!")[0] for t in trace)))[:120])
    st = hist.state_of(obj)
    try:
        ra = ("ok", hist.observe(obj, obs))
    except Exception as e:
        ra = ("raised", "%s: %s" % (type(e).__name__, str(e)[:300]))
    rb = cl.ask(st, obs)
    if ra[0] != rb[0]:
        rec.bad("history", key, {"history": trace, "observed": obs, "in_history_process": str(ra)[:300], "fresh_process": str(rb)[:300]},
                classify(trace, obs, use_ds, None))
        return
    if ra[0] == "raised":
        if ra[1].split(":")[0] == rb[1].split(":")[0]:
            rec.ok("history", key)
        else:
            rec.bad("history", key, {"history": trace, "observed": obs, "in_history_process": ra[1], "fresh_process": rb[1]}, classify(trace, obs, use_ds, None))
        return
    same, why = identical(ra[1], rb[1], xr)
    if same:
        rec.ok("history", key, sample={"history": trace, "observed": obs})
    else:
        rec.bad("history", key, {"history": trace, "observed": obs, "difference": why, "object": "Dataset" if use_ds else "DataArray"},
                classify(trace, obs, use_ds, why))
    # structural probe: a Partition object that already served a rule-based split must partition what the array holds now
    if not use_ds and rng.random() < 0.35:
        try:
            fv_ = np.sort(np.asarray(obj["freq"].values, dtype="float64"))
            p_ = obj.spec.partition
            first = str(rng.choice(["ptm5", "ptm4", "bbox"]))
            if first == "ptm5":
                p_.ptm5(float(0.5 * (fv_[0] + fv_[-1])))
            elif first == "ptm4":
                p_.ptm4(xr.DataArray(10.0), xr.DataArray(200.0), xr.DataArray(50.0))
            else:
                p_.bbox([{"fmax": float(0.5 * (fv_[0] + fv_[-1]))}])
            if rng.random() < 0.5:
                obj.values[...] = obj.values * 1.7 + 0.01          # in-place edit between the two calls
            r1 = p_.ptm3(parts=2)
            r2 = obj.spec.partition.ptm3(parts=2)
            kk = "%s|dirs=%s" % (first, "ascending" if np.all(np.diff(obj["dir"].values) > 0) else "other")
            if identical(r1, r2, xr)[0]:
                rec.ok("partition_object_reuse", kk)
            else:
                rec.bad("partition_object_reuse", kk, {"history": trace, "first_call": first}, "partition-object-keeps-earlier-spectra")
        except Exception as e:
            rec.skip("partition_object_reuse", "raised %s" % type(e).__name__)
    # structural probe: Dataset accessor agrees with the accessor of its efth variable *now*
    if use_ds and obs["name"] in ("hs", "tm01", "tm02", "dm", "oned", "dspr"):
        try:
            x1 = getattr(obj.spec, obs["name"])()
            x2 = getattr(obj["efth"].spec, obs["name"])()
            if identical(x1, x2, xr)[0]:
                rec.ok("dataset_vs_efth_accessor", key)
            else:
                rec.bad("dataset_vs_efth_accessor", key, {"history": trace, "observed": obs}, "dataset-accessor-bound-to-stale-efth" if any(t.startswith("edit_") for t in trace) else None)
        except Exception as e:
            rec.skip("dataset_vs_efth_accessor", "raised %s" % type(e).__name__)


def classify(trace, obs, use_ds, why):
    steps = set(t.split("!")[0] for t in trace)
    if use_ds and steps & {"edit_efth", "edit_dir", "edit_freq", "edit_dir_via_coords", "edit_freq_via_coords", "edit_values_inplace"} and obs["name"] not in ("ptm3", "ptm4"):
        return "dataset-accessor-bound-to-stale-efth"
    if not use_ds and steps & {"edit_dir", "edit_dir_via_coords"}:
        return "memoised-direction-width-survives-coordinate-edit"
    if why and "attrs" in str(why):
        return "global-attribute-table-autovivified"
    return None


def identical(a, b, xr):
    if isinstance(a, tuple):
        for x, y in zip(a, b):
            ok, why = identical(x, y, xr)
            if not ok:
                return ok, why
        return True, None
    try:
        # xarray.identical() misjudges attribute values that answer every hasattr() (the library's
        # AttrDict for names missing from attributes.yml), so attrs are compared as plain data
        if a.equals(b) and _plain(_attrs(a)) == _plain(_attrs(b)) and \
                all(_plain(dict(a[c].attrs)) == _plain(dict(b[c].attrs)) for c in a.coords if c in b.coords) and \
                list(a.coords) == list(b.coords):
            return True, None
    except Exception as e:
        return False, "comparison raised %r" % e
    try:
        if a.equals(b):
            return False, "attrs/names differ: %r vs %r" % (_attrs(a), _attrs(b))
        if isinstance(a, xr.DataArray) and a.dims == b.dims and a.shape == b.shape:
            d = np.nanmax(np.abs(np.asarray(a.values, dtype="float64") - np.asarray(b.values, dtype="float64")))
            return False, "values differ (max abs diff %.6g); coords equal: %s" % (d, all(a[c].equals(b[c]) for c in a.coords if c in b.coords))
    except Exception:
        pass
    return False, "objects differ: %s vs %s" % (str(a)[:200], str(b)[:200])


def _plain(v):
    if isinstance(v, dict):
        return {str(k): _plain(x) for k, x in dict.items(v)}
    if isinstance(v, (list, tuple)):
        return [_plain(x) for x in v]
    if isinstance(v, np.ndarray):
        return v.tolist()
    if isinstance(v, np.generic):
        return v.item()
    return v


def _attrs(x):
    if hasattr(x, "data_vars"):
        return {"(dataset)": dict(x.attrs), **{k: dict(x[k].attrs) for k in x.data_vars}}
    return (x.name, dict(x.attrs))


def do_step(step, rng, xr, wavespectra, attrs, obj, f, th, lnames, lsizes, samples):
    is_ds = isinstance(obj, xr.Dataset)
    da = obj["efth"] if is_ds else obj
    if step == "call":
        name = str(rng.choice(["hs", "tm01", "dm", "dspr", "oned", "tp", "dp", "to_energy", "momf", "uss", "dd"]))
        if name == "dd":
            obj.spec.dd if not is_ds else obj["efth"].spec.dd
            _ = (obj.spec.hs() if is_ds else obj.spec.dd)
        else:
            r = getattr(obj.spec, name)()
            if hasattr(r, "compute"):
                r.compute()
    elif step == "edit_efth":
        new = da.values * float(rng.uniform(0.2, 3.0)) + (rng.random(da.shape) if rng.random() < 0.5 else 0.0)
        if is_ds:
            obj["efth"] = (da.dims, new)
        else:
            obj.values[...] = new
    elif step == "edit_dir":
        k = int(rng.choice([1, 2, 3]))
        nd = obj.sizes["dir"]
        # new full-circle grid with another bin width is impossible at fixed size: relabel to a
        # partial sector (another width) or shift the labels
        if rng.random() < 0.5:
            new = (np.asarray(obj["dir"].values) / k) % 360.0
        else:
            new = (np.asarray(obj["dir"].values) + 360.0 / nd / 2) % 360.0
        obj["dir"] = new
    elif step == "edit_freq":
        obj["freq"] = np.asarray(obj["freq"].values) * float(rng.choice([0.5, 1.1, 2.0]))
    elif step == "edit_dir_via_coords":
        # in-place coordinate update that leaves the efth variable object untouched
        obj.coords["dir"] = (np.asarray(obj["dir"].values) + float(rng.choice([180.0, 45.0, 7.5]))) % 360.0
    elif step == "edit_freq_via_coords":
        obj.coords["freq"] = np.asarray(obj["freq"].values) * float(rng.choice([0.5, 1.25, 2.0]))
    elif step == "edit_values_inplace":
        v = (obj["efth"] if is_ds else obj).values
        v[...] = v * float(rng.uniform(0.3, 2.5))
    elif step in ("partition_other", "partition_transposed", "partition_same_size"):
        nf, nd = obj.sizes["freq"], obj.sizes["dir"]
        if step == "partition_transposed":
            shape = (nd, nf)
        elif step == "partition_same_size":
            n = nf * nd
            divs = [d for d in range(2, n) if n % d == 0 and d != nf]
            shape = (int(rng.choice(divs)), 0) if divs else (nf + 1, nd)
            shape = (shape[0], n // shape[0]) if divs else shape
        else:
            shape = (int(rng.integers(2, 15)), int(rng.integers(2, 15)))
        ff = np.linspace(0.05, 0.4, shape[0])
        tt = np.arange(shape[1]) * (360.0 / shape[1])
        other = gen.make_da(gen.spectrum(rng, ff, tt, "multimodal")[0], ff, tt)
        other.spec.partition.ptm3(parts=2).values
    elif step == "partition_same_shape_other_levels":
        # state of the native routine keyed on the grid shape alone: same (nf, nd), another number of levels
        nf, nd = obj.sizes["freq"], obj.sizes["dir"]
        ff = np.linspace(0.05, 0.4, nf)
        tt = np.arange(nd) * (360.0 / nd)
        other = gen.make_da(gen.spectrum(rng, ff, tt, "multimodal")[0], ff, tt)
        other.spec.partition.ptm3(parts=2, ihmax=int(rng.choice([3, 7, 40, 250, 1000]))).values
    elif step == "write":
        # an export of this very object (the Dataset accessor is cached per object)
        import shutil
        import tempfile
        ds_ = obj if is_ds else obj.to_dataset(name="efth")
        d_ = tempfile.mkdtemp(prefix="vf-c18-")
        try:
            w_ = str(rng.choice(["to_swan", "to_octopus", "to_json", "to_ww3", "to_netcdf"]))
            if w_ == "to_netcdf":
                ds_.spec.to_netcdf(os.path.join(d_, "hist_out.nc"), ncformat="NETCDF3_64BIT", compress=False, packed=bool(rng.random() < 0.5))
            else:
                getattr(ds_.spec, w_)(os.path.join(d_, "hist_out"))
        finally:
            shutil.rmtree(d_, ignore_errors=True)
    elif step == "write_other":
        # an export of ANOTHER dataset with another layout (one record vs several, stations vs a grid, other positions):
        # writers that fill templates or remember what they derived from the previous dataset
        import shutil
        import tempfile
        nt_ = int(rng.choice([1, 2, 6, 25]))
        ff = np.linspace(0.05, 0.4, int(rng.integers(3, 9)))
        tt = np.arange(0.0, 360.0, float(rng.choice([30.0, 45.0, 90.0])))
        if rng.random() < 0.5:
            ln_, ls_ = ["time", "site"], [nt_, int(rng.integers(1, 4))]
        else:
            ln_, ls_ = ["time", "lat", "lon"], [nt_, int(rng.integers(1, 4)), int(rng.integers(1, 4))]
        A_, _ = gen.stack_spectra(rng, ff, tt, ls_, cls="multimodal")
        od_ = gen.make_da(A_, ff, tt, ln_, ls_).to_dataset(name="efth")
        od_ = od_.assign_coords(time=np.datetime64("2001-03-04T00:00:00") + np.arange(nt_) * np.timedelta64(int(rng.choice([1, 3, 12])), "h"))
        if "site" in ln_:
            od_["lon"] = (("site",), rng.uniform(0, 359, ls_[1]))
            od_["lat"] = (("site",), rng.uniform(-60, 60, ls_[1]))
        else:
            od_ = od_.assign_coords(lat=np.sort(rng.uniform(-60, 60, ls_[1])), lon=np.sort(rng.uniform(0, 359, ls_[2])))
        d_ = tempfile.mkdtemp(prefix="vf-c18-")
        try:
            w_ = str(rng.choice(["to_swan", "to_json", "to_ww3", "to_ww3", "to_netcdf"]))
            try:
                if w_ == "to_netcdf":
                    od_.spec.to_netcdf(os.path.join(d_, "other.nc"), ncformat="NETCDF3_64BIT", compress=False, packed=bool(rng.random() < 0.5))
                else:
                    getattr(od_.spec, w_)(os.path.join(d_, "other_out"))
            except Exception:
                pass            # a writer that refuses this layout is fine; what matters is the observed call afterwards
        finally:
            shutil.rmtree(d_, ignore_errors=True)
    elif step == "ptm12_same_size_other_grid":
        # caches keyed on too little: same number of frequencies / directions, same end points,
        # same depth and wind as the observed ptm1/ptm2 call - but another grid in between
        nf, nd = obj.sizes["freq"], obj.sizes["dir"]
        fo = np.sort(np.asarray(obj["freq"].values, dtype="float64"))
        ff = np.linspace(fo[0], fo[-1], nf) if rng.random() < 0.5 else np.geomspace(fo[0], fo[-1], nf)
        if np.allclose(ff, fo):
            ff = fo[0] + (fo[-1] - fo[0]) * np.linspace(0, 1, nf) ** 1.5
        tt = np.arange(nd) * (360.0 / nd)
        other = gen.make_da(gen.spectrum(rng, ff, tt, "multimodal")[0], ff, tt)
        for m in ("ptm1", "ptm2"):
            getattr(other.spec.partition, m)(xr.DataArray(PTM_WIND[0]), xr.DataArray(PTM_WIND[1]), xr.DataArray(PTM_WIND[2]), swells=2).values
    elif step == "fit":
        ff = np.linspace(0.04, 0.4, 20)
        tt = np.arange(8) * 45.0
        other = gen.make_da(np.array([gen.spectrum(rng, ff, tt, "smooth")[0], np.zeros((20, 8))]), ff, tt, ["time"], [2])
        try:
            (other.spec.fit_jonswap() if rng.random() < 0.5 else other.spec.fit_gaussian()).load()
        except Exception:
            pass
    elif step == "reconstruct_other":
        # reconstruction of another dataset with non-default shapes / options
        from wavespectra.construct import partition_and_reconstruct
        ff = np.linspace(0.05, 0.4, 9)
        tt = np.arange(8) * 45.0
        other = gen.make_da(np.array([gen.spectrum(rng, ff, tt, "multimodal")[0] for _ in range(2)]), ff, tt, ["time"], [2]).to_dataset(name="efth")
        for k_, v_ in (("wspd", 8.0), ("wdir", 200.0), ("dpt", 50.0)):
            other[k_] = (("time",), np.full(2, v_))
        try:
            partition_and_reconstruct(other, parts=2, freq_name=str(rng.choice(["pierson_moskowitz", "pierson_moskowitz", "tma", "jonswap"])))
        except Exception:
            pass
    elif step == "unknown_stat":
        try:
            fv_ = np.sort(np.asarray(obj["freq"].values, dtype="float64"))
            kw_ = {} if rng.random() < 0.5 else {"fmin": float(fv_[0] + 0.2 * (fv_[-1] - fv_[0])), "fmax": float(fv_[0] + 0.7 * (fv_[-1] - fv_[0]))}
            obj.spec.stats(["hs", str(rng.choice(["nope", "hsig", "tpeak", "dd"]))], **kw_)
        except Exception:
            pass
    elif step == "crsd_other":
        ff = np.linspace(0.05, 0.4, 5)
        tt = np.arange(6) * 60.0
        other = gen.make_da(gen.spectrum(rng, ff, tt, "smooth")[0], ff, tt)
        other.spec.crsd()
        other.spec.hrms()
        other.spec.goda()
    elif step == "attr_lookup":
        _ = attrs.ATTRS[str(rng.choice(["foo", "hs", "efth", "crsd", "mom0"]))]
    elif step == "reader":
        which = str(rng.choice(["swan", "triaxys", "funwave", "octopus"]))
        fn = {"swan": ("read_swan", "swanfile.spec"), "triaxys": ("read_triaxys", "triaxys.DIRSPEC"),
              "funwave": ("read_funwave", "funwavefile.txt"), "octopus": ("read_octopus", "octopusfile.oct")}[which]
        ds = getattr(wavespectra, fn[0])(os.path.join(samples, fn[1]))
        ds.spec.hs().values
    elif step == "call_on_copy":
        c = obj.copy(deep=True)
        c.spec.hs()
        c.spec.dm()
    elif step == "dataset_accessor_touch":
        if is_ds:
            obj.spec.hs()
            obj.spec.dm()
