"""C10: statistics obey energy scaling, rotation symmetry and physical bounds; scale_by_hs hits the
prescribed height (metamorphic monitor on pairs of runs + bound invariants on single runs)."""
import numpy as np

from vf import gen, ops as O
from vf.cmp import vals, circ_diff
from vf.compare import signed_scale, compare, compare_cancel, CANCEL, align_to
from vf.checks.c05 import ties


def nondegenerate(E):
    """Positive energy in >= 2 frequencies and >= 2 directions, each holding >= 1 % of the total."""
    tot = E.sum()
    if tot <= 0:
        return False
    ef, ed = E.sum(1) / tot, E.sum(0) / tot
    return (ef > 0.01).sum() >= 2 and (ed > 0.01).sum() >= 2


def run(ctx):
    import xarray as xr
    import wavespectra  # noqa

    ops = O.build()
    for i, rng in ctx.cases("pairs", ctx.n(380, 14000)):
        pairs(ctx, rng, xr, ops)
    for i, rng in ctx.cases("scale_by_hs", ctx.n(240, 6000)):
        scale_by_hs(ctx, rng, xr)


def make(rng, xr, exact_dirs=False, nlead=None):
    nf = int(rng.choice([3, 5, 8, 12, 20]))
    f, fm = gen.freq_grid(rng, nf=nf)
    # full-circle grids and sectors (a relabelled sector may wrap through 0/360 inside the grid)
    th, dd, dmeta = gen.dir_grid(rng, nd=int(rng.choice([3, 4, 8, 12, 24, 36])), full=bool(rng.random() < 0.75), exact=exact_dirs)
    lnames, lsizes = gen.lead_dims(rng, nlead=int(rng.choice([0, 1, 2])) if nlead is None else nlead, maxsize=3)
    cls = str(rng.choice(["multimodal", "multimodal", "smooth", "noise"]))
    A, classes = gen.stack_spectra(rng, f, th, lsizes, cls=cls, distinct=False)
    dt = str(rng.choice(["float64", "float64", "float32"]))
    x = gen.make_da(A, f, th, lnames, lsizes, dtype=dt)
    return x, f, th, dd, lnames, cls, dt


def pairs(ctx, rng, xr, ops):
    rec = ctx.rec
    x, f, th, dd, lnames, cls, dt = make(rng, xr)
    f32 = dt == "float32"
    if rng.random() < 0.2:
        # low sea states (Hs of centimetres and less, exact power-of-two rescaling): absolute thresholds hidden in a
        # statistic show up when such a sea is scaled down further
        x = (x * np.asarray(2.0 ** -int(rng.integers(10, 22)), dtype=x.dtype)).astype(x.dtype)
        cls += "+low"
    aux = O.make_aux(rng, x, xr)
    E = x.values.astype("float64").reshape(-1, len(f), len(th))
    nondeg = all(nondegenerate(e) for e in E)
    stat_ops = [o for o in ops.values() if o.kind == "stat" and o.name not in ("stats",) and len(f) >= o.min_nf]
    chosen = [stat_ops[i] for i in rng.choice(len(stat_ops), size=min(9, len(stat_ops)), replace=False)]
    k = float(10 ** rng.uniform(-6, 6))
    a = float(rng.choice([rng.uniform(-720, 720), float(rng.integers(-400, 400)), dd * int(rng.integers(1, 30)), 360.0, 180.0]))
    xk = x * np.asarray(k, dtype=x.dtype) if not f32 else (x.astype("float64") * k).astype("float32")
    if f32:
        # float32 scaling is exact only up to rounding: rebuild the reference pair from the scaled data
        pass
    # relabelling with or without wrapping the new labels into [0, 360)
    wrap = bool(rng.random() < 0.7)
    xa = x.assign_coords(dir=(x.dir.values + a) % 360.0 if wrap else x.dir.values + a)
    base = {}
    for op in chosen:
        name = op.name
        if (op.exact or op.peak or name in ("dp", "dm")) and ties(x, op):
            rec.skip(name, "discrete decision tied within rounding")
            continue
        try:
            r0 = op.fn(x, aux)
            v0 = vals(r0)
        except Exception as e:
            rec.skip(name, "reference call raised %s" % type(e).__name__)
            continue
        base[name] = v0
        key = "%s|%s|nd=%d|%s" % (name, dt, len(th), cls)
        # ---- energy scaling ------------------------------------------------------------------
        if op.scale != "skip":
            try:
                vk = vals(op.fn(xk, aux))
                fac = {"sqrt": np.sqrt(k), "lin": k, "none": 1.0}[op.scale]
                sgn = signed_scale(op, x)
                ok, why = scaled_equal(name, v0, vk, fac, f32 or op.peak, op.circ, abs_scale=None if sgn is None else vals(sgn))
                emax = np.abs(E).reshape(E.shape[0], -1).max(1)
                if not ok and ok is not None and f32 and name == "goda" and np.any((emax * min(k, 1.0)) ** 2 < 1e-28):
                    ok, why = None, "squares of float32 densities underflow on this spectrum"
                if not ok and ok is not None and name == "alpha" and (np.isinf(v0).any() or np.isinf(vk).any() or np.nanmax(np.abs(np.concatenate([v0.ravel(), vk.ravel()]))) > 1e37):
                    ok, why = None, "Phillips fit beyond the float32 range on this grid"
                if ok is None:
                    rec.skip(name, why)
                elif ok:
                    rec.ok("scaling:" + name, key, sample={"k": k, "before": v0.ravel()[:2], "after": vk.ravel()[:2]})
                else:
                    mech = "energy-scaling-broken:" + name
                    if name == "gw" and gw_inhomogeneous(x, f, th, dd, k, vk, f32):
                        mech = "gw-depends-on-energy-scale"
                    rec.bad("scaling:" + name, key, {"k": k, "expected_factor": fac, "before": v0, "after": vk, "freq": f, "dir": th}, mech)
            except Exception as e:
                rec.bad("scaling:" + name, key, {"k": k, "raised": repr(e)[:300]}, "raises-on-scaled-input")
        # ---- rotation (relabelling of the direction coordinate) -------------------------------------
        if op.rot in ("shift", "none") and op.needs_dir or op.rot == "none":
            try:
                va = vals(op.fn(xa, aux))
                if op.rot == "shift":
                    want = (v0.astype("float64") + a) % 360.0
                    tol = 0.02 if (f32 or op.peak or name == "dp") else 1e-6
                    m = ~np.isnan(want)
                    good = np.array_equal(np.isnan(va), np.isnan(v0)) and np.all(circ_diff(va[m], want[m]) <= tol)
                    if name == "dm":
                        good = good and rotation_conditioned(x, f, th)
                        if not rotation_conditioned(x, f, th):
                            rec.skip(name, "resultant near zero")
                            continue
                else:
                    good, why = scaled_equal(name, v0, va, 1.0, f32 or op.peak, False)
                    if good is None:
                        rec.skip(name, why)
                        continue
                if good:
                    rec.ok("rotation:" + name, key, sample={"angle": a, "before": v0.ravel()[:2], "after": va.ravel()[:2]})
                else:
                    rec.bad("rotation:" + name, key, {"angle": a, "before": v0, "after": va, "dir_before": th, "dir_after": xa.dir.values, "freq": f},
                            "rotation-symmetry-broken:" + name)
            except Exception as e:
                rec.bad("rotation:" + name, key, {"angle": a, "raised": repr(e)[:300], "dir_after": xa.dir.values}, "raises-on-relabelled-directions")
    # ---- the peak direction of the relabelled spectrum is one of its (possibly unwrapped) labels -------------
    try:
        dpa = vals(xa.spec.dp())
        tha = xa.dir.values.astype("float32").astype("float64")
        dpa = dpa[~np.isnan(dpa)]
        okc = np.all(np.min(np.abs(dpa.reshape(-1, 1) - tha.reshape(1, -1)), axis=1) <= 1e-4 * max(1.0, np.abs(tha).max())) if dpa.size else True
        kk = "%s|nd=%d|relabelled:%s" % (dt, len(th), "wrapped" if wrap else "unwrapped")
        if okc:
            rec.ok("dp_is_a_label", kk)
        else:
            rec.bad("dp_is_a_label", kk, {"angle": a, "dp": dpa, "labels": xa.dir.values, "wrapped": wrap}, "bound-violated:dp is a coordinate")
    except Exception as e:
        rec.bad("dp_is_a_label", dt, {"angle": a, "raised": repr(e)[:300], "labels": xa.dir.values}, "raises-on-relabelled-directions")
    # ---- bounds ---------------------------------------------------------------------------------------
    if not nondeg:
        rec.skip("bounds", "degenerate spectrum (energy in < 2 frequencies or directions)")
        return
    bkey = "%s|nd=%d|nf=%d|%s" % (dt, len(th), len(f), cls)
    fmin, fmax = float(f.min()), float(f.max())
    get = lambda n, fn: base[n] if n in base else vals(fn())
    eps = 2e-6 if f32 else 1e-12
    checks = []
    try:
        tm01, tm02 = get("tm01", x.spec.tm01), get("tm02", x.spec.tm02)
        checks.append(("tm02>=1/fmax", np.all(tm02 >= 1 / fmax * (1 - eps))))
        checks.append(("tm02<=tm01", np.all(tm02 <= tm01 * (1 + eps))))
        checks.append(("tm01<=1/fmin", np.all(tm01 <= 1 / fmin * (1 + eps))))
        for n, fn in (("dm", x.spec.dm), ("dp", x.spec.dp), ("dpm", x.spec.dpm)):
            v = get(n, fn)
            v = v[~np.isnan(v)]
            checks.append((n + " in [0,360)", np.all((v >= 0) & (v < 360))))
        dp = get("dp", x.spec.dp)
        checks.append(("dp is a coordinate", np.all(np.min(np.abs(dp.reshape(-1, 1) - th.astype("float32").reshape(1, -1)), axis=1) <= 1e-4)))
        if len(f) >= 3:
            for sm in (True, False):
                tp = vals(x.spec.tp(smooth=sm))
                tp = tp[~np.isnan(tp)]
                checks.append(("tp within frequency range", np.all((tp >= 1 / fmax * (1 - 2e-6)) & (tp <= 1 / fmin * (1 + 2e-6)))))
        ds_ = get("dspr", x.spec.dspr)
        checks.append(("0<=dspr<=81.03", np.all((ds_ >= 0) & (ds_ <= 81.03 * (1 + eps)))))
        swe, sw = get("swe", x.spec.swe), get("sw", x.spec.sw)
        checks.append(("swe real and <=1", np.all(np.isfinite(swe) & (swe <= 1 + eps) & (swe >= 0))))
        hsv = get("hs", x.spec.hs)
        big = hsv >= 0.0011          # sw is documented to be masked below Hs = 0.001 m
        checks.append(("sw real", np.all(np.isfinite(sw[big]) & (sw[big] >= 0))))
    except Exception as e:
        rec.bad("bounds", bkey, {"raised": repr(e)[:300]}, "raises-on-nondegenerate-spectrum")
        return
    for what, good in checks:
        if good:
            rec.ok("bounds", bkey + "|" + what)
        else:
            rec.bad("bounds", bkey + "|" + what, {"bound": what, "freq": f, "dir": th, "E": x.values, "values": {k_: v for k_, v in base.items()}}, "bound-violated:" + what)


def gw_inhomogeneous(x, f, th, dd, k, vk, f32):
    """Defect model: the documented expression sqrt(m0/Tz^2 - m0^2/Tm^2) is not homogeneous in the
    energy: for k*S it evaluates to sqrt(k*a - k^2*b) with a, b the two terms for S."""
    from vf.oracle import integrals as I
    E = x.values.astype("float64").reshape((-1, len(f), len(th)))
    e1 = I.e1d(E, dd)
    f64 = np.asarray(f, dtype="float64")
    m0t = I.m0_tail(e1, f64, True)
    m0, m1, m2 = (I.momf(e1, f64, n) for n in (0, 1, 2))
    with np.errstate(all="ignore"):
        a = m0t * m2 / m0
        b = m0t ** 2 * (m1 / m0) ** 2
        pred = np.sqrt(k * a - k * k * b)
    obs = np.asarray(vk, dtype="float64").reshape(-1)
    m = np.isfinite(pred) & np.isfinite(obs)
    if not m.any():
        return np.array_equal(np.isnan(pred), np.isnan(obs))
    return bool(np.all(np.abs(obs[m] - pred[m]) <= (5e-3 if f32 else 1e-6) * np.abs(pred[m]) + 1e-12))


def rotation_conditioned(x, f, th):
    E = x.values.astype("float64").reshape(-1, len(f), len(th))
    t = np.radians(th)
    for e in E:
        ed = e.sum(0)
        R = np.hypot((ed * np.sin(t)).sum(), (ed * np.cos(t)).sum())
        if R <= 1e-3 * ed.sum():
            return False
    return True


def scaled_equal(name, v0, v1, fac, f32, circ, abs_scale=None):
    v0 = np.asarray(v0, dtype="float64")
    v1 = np.asarray(v1, dtype="float64")
    if v0.shape != v1.shape:
        return False, "shape"
    if name in CANCEL:
        floor = (CANCEL[name] or 0.0) * (1.0 if f32 else 0.05)
        if name == "gw":
            floor = 0.05 * np.nanmax(np.abs(v0)) if np.isfinite(v0).any() else np.inf
            m = np.isfinite(v0) & np.isfinite(v1) & (v0 > floor)
        else:
            m = np.isfinite(v0) & np.isfinite(v1) & (v0 > floor) & (v1 > floor * (fac if fac != 1 else 1))
        if not m.any():
            return None, "cancellation"
        from vf.compare import cancel_rtol
        rt = cancel_rtol(name, v0[m], f32) if name != "gw" else (5e-3 if f32 else 1e-6)
        return bool(np.all(np.abs(v1[m] - fac * v0[m]) <= rt * np.abs(fac * v0[m]))), None
    if not np.array_equal(np.isnan(v0), np.isnan(v1)):
        return False, "nan pattern"
    if not np.array_equal(np.isinf(v0), np.isinf(v1)) or not np.array_equal(v0[np.isinf(v0)], v1[np.isinf(v1)]):
        return False, "inf pattern"
    m = np.isfinite(v0)
    if circ:
        return bool(np.all(circ_diff(v1[m], v0[m]) <= (0.05 if f32 else 1e-6))), None
    rt = 3e-5 if f32 else 1e-9
    if name in ("alpha", "gamma"):
        rt = max(rt, 2e-4)      # float32 tail fits around a float32 peak frequency
    at = 1e-300
    if abs_scale is not None:
        # signed directional sum: rounding scales with the unsigned total, not with the (cancelling) result
        at = at + 32.0 * rt * np.abs(fac * np.broadcast_to(np.asarray(abs_scale, dtype="float64"), v0.shape)[m])
    return bool(np.all(np.abs(v1[m] - fac * v0[m]) <= rt * np.abs(fac * v0[m]) + at)), None


def scale_by_hs(ctx, rng, xr):
    rec = ctx.rec
    x, f, th, dd, lnames, cls, dt = make(rng, xr, nlead=int(rng.choice([1, 2])))
    if len(f) < 3:
        return
    f32 = dt == "float32"
    if rng.random() < 0.12:
        # spectra stored as integers (counts, unscaled packed values): the prescribed height is still the prescribed height
        q_ = float(np.nanmax(x.values)) / float(rng.choice([50.0, 400.0, 3000.0])) or 1.0
        x = x.copy(data=np.rint(x.values / q_).astype(str(rng.choice(["int32", "int64"]))))
        dt = str(x.dtype)
    hs0 = vals(x.spec.hs())
    tp0 = vals(x.spec.tp())
    dpm0 = vals(x.spec.dpm())
    expr, fn = [("0.5*hs", lambda h: 0.5 * h), ("0.13*hs + 0.02", lambda h: 0.13 * h + 0.02), ("hs**0.5", lambda h: h ** 0.5), ("2*HS", lambda h: 2 * h)][int(rng.integers(4))]
    kw, cond, margin_ok = {}, np.ones(hs0.shape, dtype=bool), np.ones(hs0.shape, dtype=bool)
    which = []

    def rng_pair(v):
        v = v[np.isfinite(v)]
        if v.size == 0:
            return 0.0, 1.0
        lo, hi = np.quantile(v, [rng.uniform(0, 0.5), rng.uniform(0.5, 1.0)])
        return float(lo), float(hi)

    def sides(lo, hi, nmin, nmax):
        """Both limits, or only one of them (the other side open)."""
        m = str(rng.choice(["both", "both", "min", "max"]))
        if m == "min":
            hi = np.inf
        elif m == "max":
            lo = -np.inf
        kw.update({k_: v_ for k_, v_ in ((nmin, lo), (nmax, hi)) if np.isfinite(v_)})
        if m != "both":
            rec.note("scale_by_hs_one_sided_range")
        return lo, hi, m

    if rng.random() < 0.7:
        lo, hi = rng_pair(hs0)
        lo, hi, m_ = sides(lo, hi, "hs_min", "hs_max")
        cond &= (hs0 >= lo) & (hs0 <= hi)
        if np.isfinite(lo):
            margin_ok &= np.abs(hs0 - lo) > 1e-5 * abs(lo) + 1e-12
        if np.isfinite(hi):
            margin_ok &= np.abs(hs0 - hi) > 1e-5 * abs(hi) + 1e-12
        which.append("hs")
    if rng.random() < 0.5:
        lo, hi = rng_pair(tp0)
        lo, hi, m_ = sides(lo, hi, "tp_min", "tp_max")
        with np.errstate(invalid="ignore"):
            cond &= (tp0 >= lo) & (tp0 <= hi)
        if np.isfinite(lo):
            margin_ok &= ~(np.abs(tp0 - lo) <= 1e-5 * abs(lo))
        if np.isfinite(hi):
            margin_ok &= ~(np.abs(tp0 - hi) <= 1e-5 * abs(hi))
        which.append("tp")
    if rng.random() < 0.5:
        lo, hi = rng_pair(dpm0)
        lo, hi, m_ = sides(lo, hi, "dpm_min", "dpm_max")
        with np.errstate(invalid="ignore"):
            cond &= (dpm0 >= lo) & (dpm0 <= hi)
        margin_ok &= ~(np.abs(dpm0 - lo) <= 1e-3) & ~(np.abs(dpm0 - hi) <= 1e-3)
        which.append("dpm")
    key = "%s|%s|ranges=%s|lead=%d" % (expr, dt, "+".join(which) or "none", len(lnames))
    try:
        y = x.spec.scale_by_hs(expr, **kw)
        y = y.compute() if hasattr(y, "compute") else y
        yv = align_to(y, x).values
        hs1 = vals(y.spec.hs())
    except Exception as e:
        rec.bad("scale_by_hs", key, {"raised": repr(e)[:300], "kwargs": kw}, "scale_by_hs-raises")
        return
    want = fn(hs0)
    xv = x.values
    lead_shape = hs0.shape
    ok_all = True
    for idx in np.ndindex(*lead_shape):
        if not margin_ok[idx] or hs0[idx] <= 0:
            rec.skip("scale_by_hs", "a statistic within rounding of a range edge / zero energy")
            continue
        if cond[idx]:
            good = abs(hs1[idx] - want[idx]) <= (3e-5 if f32 else 1e-9) * abs(want[idx])
            what = "in-range spectrum has the prescribed height"
        else:
            good = np.array_equal(np.asarray(yv[idx], dtype="float64"), np.asarray(xv[idx], dtype="float64"))
            what = "out-of-range spectrum untouched"
        if good:
            rec.ok("scale_by_hs", key + "|" + what)
        else:
            ok_all = False
            rec.bad("scale_by_hs", key + "|" + what, {"expr": expr, "kwargs": kw, "position": idx, "in_range": bool(cond[idx]),
                                                      "hs_before": hs0[idx], "hs_after": hs1[idx], "hs_wanted": want[idx], "tp": tp0[idx], "dpm": dpm0[idx]},
                    "scale_by_hs:" + what.replace(" ", "-"))
            break
