"""C06: each spectrum in a dataset is processed independently of the others.

(1) batched result at position p == result of the same call on the extracted spectrum (with its
    own wind/depth); (2) perturbation monitor: replacing one spectrum leaves every other
    position's result bit-identical; (3) Dataset accessor result identical to the efth accessor's."""
import numpy as np

from vf import gen, ops as O
from vf.compare import signed_scale, compare_op, align_to
from vf.checks.c05 import ties

EXACT_PARTS = {"ptm1", "ptm2", "ptm3", "ptm4", "bbox"}


def isel_aux(aux, xr, idx):
    out = dict(aux)
    for k in ("wspd", "wdir", "dpt", "other"):
        if k in aux:
            out[k] = aux[k].isel({d: i for d, i in idx.items() if d in aux[k].dims})
    return out


def run(ctx):
    import xarray as xr
    import wavespectra  # noqa

    ops = O.build()
    names = [n for n in ops if n != "hmax"]
    for i, rng in ctx.cases("datasets", ctx.n(220, 5000)):
        one(ctx, rng, xr, ops, names)
    for i, rng in ctx.cases("fits", ctx.n(64, 1500)):
        fits(ctx, rng, xr)
    for i, rng in ctx.cases("track", ctx.n(48, 1200)):
        track_vs_ptm1(ctx, rng, xr)


def track_vs_ptm1(ctx, rng, xr):
    """ptm1_track partitions each record exactly as ptm1 does with that record's own wind and depth - also where the
    wind record has gaps (missing values) - and tracking a single site equals that site of the batched call."""
    rec = ctx.rec
    f = np.linspace(0.04, 0.4, 10)
    th = np.arange(0, 360, 45.0)
    nt, ns = int(rng.integers(3, 7)), int(rng.integers(1, 4))
    A, _ = gen.stack_spectra(rng, f, th, [nt, ns], cls="multimodal")
    x = gen.make_da(A, f, th, ["time", "site"], [nt, ns])
    co = {"time": x.time, "site": x.site}
    wv = rng.uniform(1, 20, (nt, ns))
    gaps = bool(rng.random() < 0.5)
    if gaps:
        wv[int(rng.integers(1, nt - 1)), int(rng.integers(ns))] = np.nan          # a gap with valid wind either side
    w = xr.DataArray(wv, dims=["time", "site"], coords=co)
    wd = xr.DataArray(rng.uniform(0, 360, (nt, ns)), dims=["time", "site"], coords=co)
    dp = xr.DataArray(np.full((nt, ns), 40.0), dims=["time", "site"], coords=co)
    key = "gaps=%s|sites=%d" % (gaps, ns)
    try:
        T = x.spec.partition.ptm1_track(w, wd, dp, swells=2).compute()
        P1 = x.spec.partition.ptm1(w, wd, dp, swells=2).compute()
    except Exception as e:
        rec.skip("track_vs_ptm1", "raised %s" % type(e).__name__)
        return
    a_ = np.asarray(T["efth"].transpose("part", "time", "site", "freq", "dir").values, dtype="float64")
    b_ = np.asarray(P1.transpose("part", "time", "site", "freq", "dir").values, dtype="float64")
    if a_.shape == b_.shape and np.array_equal(a_, b_, equal_nan=True):
        rec.ok("track_vs_ptm1", key)
    else:
        w_ = np.argwhere(~((a_ == b_) | (np.isnan(a_) & np.isnan(b_))))[0] if a_.shape == b_.shape else None
        rec.bad("track_vs_ptm1", key, {"first_difference_part_time_site": None if w_ is None else [int(v) for v in w_[:3]], "wind": wv}, "crosstalk-batched-differs-from-single")


def _fit_spectrum(rng, f, th, cls):
    """1-D shapes spread over direction: broad (fit converges), very narrow swell (curve_fit often gives up),
    two-peaked, noisy, single-bin and empty spectra."""
    fp = float(rng.uniform(f[2], f[-3]))
    if cls == "broad":
        s1 = np.exp(-0.5 * ((f - fp) / (0.15 * fp)) ** 2) * (f / fp) ** -2
    elif cls == "narrow":
        s1 = np.exp(-0.5 * ((f - fp) / float(rng.uniform(0.001, 0.006))) ** 2)
    elif cls == "twopeak":
        s1 = np.exp(-0.5 * ((f - fp) / 0.01) ** 2) + 0.9 * np.exp(-0.5 * ((f - 1.7 * fp) / 0.03) ** 2)
    elif cls == "noise":
        s1 = rng.random(len(f))
    elif cls == "single_bin":
        s1 = np.zeros(len(f))
        s1[int(rng.integers(1, len(f) - 1))] = 1.0
    else:
        s1 = np.zeros(len(f))
    D = np.cos(np.radians(th - float(rng.uniform(0, 360))) / 2) ** 2 + 0.01
    return float(10 ** rng.uniform(-1.5, 1)) * s1[:, None] * D[None, :]


def fits(ctx, rng, xr):
    """fit_jonswap / fit_gaussian loop over the positions: the fit at a position must be the fit of that single
    spectrum, whatever was fitted before it (order reversed, neighbour replaced, single call)."""
    rec = ctx.rec
    nf = int(rng.choice([12, 20, 31]))
    f = np.linspace(0.04, 0.04 + 0.012 * nf, nf) if rng.random() < 0.5 else 0.04 * 1.1 ** np.arange(nf)
    th = np.arange(0.0, 360.0, 45.0)
    n = int(rng.integers(3, 7))
    classes = [str(rng.choice(["broad", "narrow", "narrow", "twopeak", "noise", "single_bin", "zeros"])) for _ in range(n)]
    A = np.array([_fit_spectrum(rng, f, th, c) for c in classes])
    lead = str(rng.choice(["time", "site"]))
    x = xr.DataArray(A, dims=[lead, "freq", "dir"], coords={lead: np.arange(n), "freq": f, "dir": th}, name="efth")
    which = str(rng.choice(["jonswap", "gaussian"]))
    kw = {"gamma0": float(rng.choice([1.5, 3.3]))} if which == "jonswap" else {"gw0": float(rng.choice([1.5, 0.02]))}
    key = "fit_%s|lead=%s|%s" % (which, lead, "+".join(sorted(set(classes))))

    def call(y):
        fn = y.spec.fit_jonswap if which == "jonswap" else y.spec.fit_gaussian
        r = fn(spectra=False, params=True, **kw).compute()
        return np.array([np.asarray(r[k].values, dtype="float64") for k in sorted(r.data_vars)])

    import warnings
    with warnings.catch_warnings():
        warnings.simplefilter("ignore")
        try:
            R = call(x)
        except Exception as e:
            rec.skip("fits", "batched fit raised %s" % type(e).__name__)
            return

        def same(a, b):
            return bool(np.all((a == b) | (np.isnan(a) & np.isnan(b))))

        rec.note("fit_nan_positions", int(np.isnan(R).any(axis=0).sum()))
        rec.note("fit_converged_positions", int((~np.isnan(R).any(axis=0)).sum()))
        # (1) each position on its own (the loop state then holds whatever the batched call left behind)
        for k in rng.permutation(n):
            r1 = call(x.isel({lead: [int(k)]}))
            if same(r1[:, 0], R[:, int(k)]):
                rec.ok("fit_single_vs_batched", key)
            else:
                rec.bad("fit_single_vs_batched", key, {"position": int(k), "classes": classes, "batched": R[:, int(k)], "single": r1[:, 0], "freq": f,
                                                       "oned": A[int(k)].sum(-1)}, "crosstalk-fit-depends-on-other-spectra")
                return
        # (2) order reversed: results reversed
        Rr = call(x.isel({lead: slice(None, None, -1)}))
        if same(Rr[:, ::-1], R):
            rec.ok("fit_order", key)
        else:
            rec.bad("fit_order", key, {"classes": classes, "forward": R, "reversed": Rr[:, ::-1]}, "crosstalk-fit-depends-on-other-spectra")
            return
        # (3) one spectrum replaced: all others bit-identical
        p = int(rng.integers(n))
        A2 = A.copy()
        A2[p] = _fit_spectrum(rng, f, th, str(rng.choice(["broad", "narrow", "twopeak"])))
        R2 = call(x.copy(data=A2))
        keep = np.arange(n) != p
        if same(R2[:, keep], R[:, keep]):
            rec.ok("fit_perturbation", key)
        else:
            rec.bad("fit_perturbation", key, {"classes": classes, "replaced": p, "before": R, "after": R2}, "crosstalk-fit-depends-on-other-spectra")


def one(ctx, rng, xr, ops, names):
    rec = ctx.rec
    nf = int(rng.choice([3, 5, 8, 12]))
    f, fm = gen.freq_grid(rng, nf=nf)
    th, dd, dmeta = gen.dir_grid(rng, nd=int(rng.choice([4, 8, 12, 24])), full=True, exact=True)
    pool = ["time", "site", "lat", "lon", "part"]
    nlead = int(rng.choice([0, 1, 2, 2, 3]))
    lnames = list(rng.permutation(pool)[:nlead])
    if "site" in lnames and ("lat" in lnames or "lon" in lnames):
        lnames = [n for n in lnames if n != "site"]
    lsizes = [int(rng.integers(1, ctx.n(4, 7))) for _ in lnames]
    if len(lsizes) >= 2 and rng.random() < 0.4:
        lsizes = [max(2, lsizes[0])] * len(lsizes)
    npos = int(np.prod(lsizes)) if lsizes else 1
    # neighbouring spectra deliberately very different (peak bins, amplitudes, one all-zero)
    specs = []
    peakless_ = False
    wide = bool(rng.random() < 0.3)      # calm next to storm: energies seven decades apart within one dataset
    for p in range(npos):
        cls = str(rng.choice(["multimodal", "smooth", "noise", "single_bin", "zeros", "dynrange"], p=[.35, .25, .15, .1, .1, .05]))
        S_ = gen.spectrum(rng, f, th, cls)[0] * float(10 ** rng.uniform(-7 if wide else -2, 1))
        if rng.random() < 0.15 and nf >= 3:
            # an energetic spectrum without an interior peak (monotone tail, e.g. what a frequency cut leaves): its peak
            # parameters are undefined whatever its neighbours in the array look like
            prof_ = np.sort(rng.random(nf) + 0.05)[:: (1 if rng.random() < 0.5 else -1)]
            S_ = prof_[:, None] * (rng.random(len(th)) + 0.05)[None, :] * float(10 ** rng.uniform(-2, 1))
            rec.note("peakless_position_next_to_others")
            peakless_ = True
        specs.append(S_)
    A = np.array(specs).reshape(tuple(lsizes) + (nf, len(th)))
    dt = str(rng.choice(["float64", "float32"]))
    x = gen.make_da(A, f, th, lnames, lsizes, dtype=dt)
    # dims in any order: spectral dims not necessarily last
    if rng.random() < 0.4 and lnames:
        order = list(rng.permutation(list(x.dims)))
        x = x.transpose(*order)
        x = x.copy(data=np.ascontiguousarray(x.values))
    u_ = rng.random()
    if u_ < 0.15:
        x = x.roll(dir=1, roll_coords=True)          # seam between the first two stored direction labels
    elif u_ < 0.3:
        x = x.roll(dir=int(rng.integers(1, x.sizes["dir"])), roll_coords=True)
    aux = O.make_aux(rng, x, xr)
    f32 = dt == "float32"
    lead = [d for d in x.dims if d not in ("freq", "dir")]
    allpos = [dict(zip(lead, idx)) for idx in np.ndindex(*[x.sizes[d] for d in lead])] if lead else [{}]
    if len(allpos) > 64:
        allpos = [allpos[i] for i in rng.choice(len(allpos), 64, replace=False)]
    chosen = list(rng.choice(names, size=ctx.n(6, 10), replace=False))
    if any(tuple(aux[k].dims) != tuple(lead) for k in ("wspd", "wdir", "dpt")):
        # forcing stored in another dimension order / with fewer dimensions than the spectra: make sure an operation
        # that consumes it is driven (pairing must be by dimension name, not by axis position)
        chosen.append(str(rng.choice(["ptm1", "ptm2", "ptm4"])))
    if peakless_:
        chosen += [n_ for n_ in ("tp", "dpm", "dpspr", "dpspr_mom2", "alpha", "gamma", "fp") if n_ not in chosen and n_ in ops][: 4]
    ds = x.to_dataset(name="efth")
    if rng.random() < 0.5:
        # datasets as the readers return them: wind and depth variables next to the spectra (the Dataset accessor must
        # still do exactly what the efth accessor does with the same arguments)
        for k_, nm_ in (("wspd", "wspd"), ("wdir", "wdir"), ("dpt", "dpt")):
            if set(aux[k_].dims) <= set(x.dims):
                ds[nm_] = aux[k_]
    for name in chosen:
        op = ops[name]
        if nf < op.min_nf:
            continue
        if op.kind == "parts" and "part" in lead:
            continue   # partitioning an already partitioned dataset: the new `part` axis would clash
        key = "%s|%s|lead=%s|order=%s" % (name, dt, "+".join(sorted(lead)) or "none", "speclast" if list(x.dims[-2:]) == ["freq", "dir"] else "mixed")
        try:
            R = op.fn(x, aux)
            if hasattr(R, "compute"):
                R = R.compute()
        except Exception as e:
            rec.skip(name, "batched call raised %s" % type(e).__name__)
            continue
        tie = (op.exact or op.peak or name in ("dp", "dm")) and ties(x, op)
        missing_ = [d_ for d_ in lead if d_ not in getattr(R, "dims", lead)]
        if missing_:
            # one result per position is the least the statement asks for: a result that lost a non-spectral dimension
            # has merged the spectra along it
            rec.bad("single_vs_batched", key, {"op": name, "dims_in": x.dims, "dims_out": getattr(R, "dims", None), "lost": missing_},
                    "result-lost-a-non-spectral-dimension")
            continue
        # (1) per-position equality
        if lead:
            sample = allpos if len(allpos) <= 12 else [allpos[i] for i in rng.choice(len(allpos), 12, replace=False)]
            for idx in sample:
                if tie:
                    rec.skip(name, "discrete decision tied within rounding")
                    break
                try:
                    r1 = op.fn(x.isel(idx), isel_aux(aux, xr, idx))
                    if hasattr(r1, "compute"):
                        r1 = r1.compute()
                except Exception as e:
                    rec.bad("single_vs_batched", key, {"position": idx, "raised": repr(e)[:300]}, "single-spectrum-call-raises")
                    break
                Rp = R.isel(idx)
                # peak statistics are documented float32 results whatever the input width
                ok, det = compare_op(op, r1, Rp, f32, rtol=(1e-5 if (op.peak or f32) else 1e-12),
                                     circ_atol=(1e-3 if (op.peak or f32) else 1e-9), scale=signed_scale(op, x.isel(idx)))
                if ok is None:
                    rec.skip(name, "cancellation")
                elif ok:
                    rec.ok("single_vs_batched", key)
                else:
                    rec.bad("single_vs_batched", key, {"op": name, "position": idx, "dims": x.dims, "sizes": dict(x.sizes), "diff": det}, "crosstalk-batched-differs-from-single")
                    break
        # (2) perturbation monitor
        if lead and len(allpos) > 1:
            p0 = allpos[int(rng.integers(len(allpos)))]
            x2 = x.copy(deep=True)
            newspec = gen.spectrum(rng, f, th, "multimodal")[0] * 7.3 + 0.01
            x2.loc[{d: x[d][i] for d, i in p0.items()}] = xr.DataArray(newspec.astype(dt), dims=["freq", "dir"], coords={"freq": x.freq, "dir": x.dir}).transpose(*[d for d in x.dims if d in ("freq", "dir")])
            aux2 = dict(aux)
            for k in ("wspd", "wdir", "dpt"):
                if set(aux[k].dims) != set(p0):
                    continue        # forcing shared between positions: changing it would legitimately change the others
                a2 = aux[k].copy(deep=True)
                a2[p0] = float(a2[p0]) * 1.7 + 1.0
                aux2[k] = a2
            try:
                R2 = op.fn(x2, aux2)
                if hasattr(R2, "compute"):
                    R2 = R2.compute()
                ok, where = untouched_identical(R, R2, p0, lead, xr)
                if ok:
                    rec.ok("perturbation", key)
                else:
                    rec.bad("perturbation", key, {"op": name, "perturbed": p0, "changed_at": where, "dims": x.dims}, "crosstalk-perturbation-leaks")
            except Exception as e:
                rec.skip("perturbation", "perturbed call raised %s" % type(e).__name__)
        # (3) Dataset accessor agrees with the efth accessor
        try:
            fn = op.fn
            Rd = fn(_DsProxy(ds), aux)
            if hasattr(Rd, "compute"):
                Rd = Rd.compute()
            same = Rd.identical(R) if hasattr(Rd, "identical") else all(a.identical(b) for a, b in zip(Rd, R))
            if same:
                rec.ok("dataset_accessor", key)
            else:
                rec.bad("dataset_accessor", key, {"op": name}, "dataset-accessor-differs")
        except _NotOnDataset:
            pass
        except Exception as e:
            rec.bad("dataset_accessor", key, {"op": name, "raised": repr(e)[:300]}, "dataset-accessor-raises")
    # (3b) smoothing with missing data: an all-missing first record / holes in another record must not change how the
    #      other spectra are smoothed
    if lead and len(allpos) > 1 and x.sizes["freq"] >= 3 and x.sizes["dir"] >= 3 and rng.random() < 0.3:
        xn = x.copy(deep=True)
        xv = xn.transpose(*lead, "freq", "dir").values.copy()
        flat = xv.reshape((-1,) + xv.shape[-2:])
        flat[0] = np.nan
        if flat.shape[0] > 2:
            flat[1, int(rng.integers(flat.shape[1])), int(rng.integers(flat.shape[2]))] = np.nan
        xn = xn.transpose(*lead, "freq", "dir").copy(data=flat.reshape(xv.shape)).transpose(*x.dims)
        try:
            Rn = xn.spec.smooth(3, 3)
            Rn = Rn.compute() if hasattr(Rn, "compute") else Rn
            okn = True
            for idx in allpos[:8]:
                r1 = xn.isel(idx).spec.smooth(3, 3)
                a_, b_ = np.asarray(Rn.isel(idx).transpose("freq", "dir").values, dtype="float64"), np.asarray(r1.transpose("freq", "dir").values, dtype="float64")
                if not np.allclose(a_, b_, rtol=1e-12 if not f32 else 1e-6, atol=0, equal_nan=True):
                    rec.bad("smooth_with_missing", "lead=%s" % "+".join(sorted(lead)), {"position": idx, "dims": x.dims}, "crosstalk-batched-differs-from-single")
                    okn = False
                    break
            if okn:
                rec.ok("smooth_with_missing", "lead=%s" % "+".join(sorted(lead)))
        except Exception as e:
            rec.skip("smooth_with_missing", "raised %s" % type(e).__name__)
    # (4) the same Dataset object after in-place edits: the two accessors must still agree
    edit = str(rng.choice(["coords_dir", "coords_freq", "setitem_dir", "efth_replaced"]))
    if edit == "coords_dir":
        ds.coords["dir"] = (ds["dir"] + 180.0) % 360.0
    elif edit == "coords_freq":
        ds.coords["freq"] = ds["freq"] * 1.25
    elif edit == "setitem_dir":
        ds["dir"] = (ds["dir"] + 90.0) % 360.0
    else:
        ds["efth"] = ds["efth"] * 2.0 + 0.001
    x_now = ds["efth"]
    for name in chosen:
        op = ops[name]
        if nf < op.min_nf or (op.kind == "parts" and "part" in lead):
            continue
        key = "%s|after:%s" % (name, edit)
        try:
            Rd = op.fn(_DsProxy(ds), aux)
            Ra = op.fn(x_now, aux)
            Rd = Rd.compute() if hasattr(Rd, "compute") else Rd
            Ra = Ra.compute() if hasattr(Ra, "compute") else Ra
            same = Rd.identical(Ra) if hasattr(Rd, "identical") else all(a.identical(b) for a, b in zip(Rd, Ra))
            if same:
                rec.ok("dataset_accessor_after_edit", key)
            else:
                rec.bad("dataset_accessor_after_edit", key, {"op": name, "edit": edit}, "dataset-accessor-differs")
        except _NotOnDataset:
            pass
        except Exception as e:
            rec.skip(name, "call after in-place edit raised %s" % type(e).__name__)


class _NotOnDataset(Exception):
    pass


class _DsProxy:
    """Looks like the DataArray to the op table but routes `.spec` to the Dataset accessor."""

    def __init__(self, ds):
        self._ds = ds

    @property
    def spec(self):
        return _SpecProxy(self._ds.spec)


class _SpecProxy:
    def __init__(self, acc):
        self._acc = acc

    def __getattr__(self, k):
        if k == "partition":
            raise _NotOnDataset()
        return getattr(self._acc, k)


def untouched_identical(R, R2, p0, lead, xr):
    items = [(R, R2)] if not isinstance(R, (tuple, list)) else list(zip(R, R2))
    if isinstance(R, xr.Dataset):
        items = [(R[k], R2[k]) for k in R.data_vars]
    for a, b in items:
        if not hasattr(a, "dims"):
            continue
        if a.shape != b.shape or a.dims != b.dims:
            return False, "shape/dims"
        av, bv = np.asarray(a.values), np.asarray(b.values)
        mask = np.ones(av.shape, dtype=bool)
        sl = [slice(None)] * av.ndim
        hit = False
        for d, i in p0.items():
            if d in a.dims:
                sl[a.dims.index(d)] = i
                hit = True
        if hit:
            mask[tuple(sl)] = False
        elif lead:
            continue  # result without the leading dims (e.g. celerity): nothing to compare
        same = (av == bv) | (np.isnan(av.astype("float64")) & np.isnan(bv.astype("float64"))) if av.dtype.kind == "f" else (av == bv)
        if not same[mask].all():
            w = np.argwhere(~same & mask)[0]
            return False, dict(zip(a.dims, [int(v) for v in w]))
    return True, None
