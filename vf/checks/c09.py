"""C09: threshold, wave-age and box splits assign every bin by the stated rule
(reference-rule monitor on ptm4, ptm5, bbox, split and stats with limits)."""
import numpy as np

from vf import gen
from vf.cmp import close, vals
from vf.oracle import integrals as I
from vf.checks.c08 import ref_interp, hs2, first_two_dd


def run(ctx):
    import xarray as xr
    import wavespectra  # noqa
    from wavespectra.core import utils

    for i, rng in ctx.cases("ptm4", ctx.n(500, 14000)):
        ptm4(ctx, rng, xr, utils)
    for i, rng in ctx.cases("ptm5", ctx.n(400, 12000)):
        ptm5(ctx, rng, xr)
    for i, rng in ctx.cases("bbox", ctx.n(500, 14000)):
        bbox(ctx, rng, xr)
    for i, rng in ctx.cases("split", ctx.n(600, 14000)):
        split(ctx, rng, xr)


def dataset(rng, xr, nfs=(2, 3, 5, 9, 14), exact=False, maxlead=2):
    nf = int(rng.choice(nfs))
    f, fm = gen.freq_grid(rng, nf=nf)
    th, dd, dmeta = gen.dir_grid(rng, nd=int(rng.choice([3, 4, 8, 12, 24])), full=True, exact=exact)
    lnames, lsizes = gen.lead_dims(rng, nlead=int(rng.integers(0, maxlead + 1)), maxsize=3)
    A, _ = gen.stack_spectra(rng, f, th, lsizes, cls=str(rng.choice(["multimodal", "noise", "plateau"])), distinct=False)
    if lsizes and rng.random() < 0.3:
        # a calm record (no energy at all) among the others
        A.reshape((-1,) + A.shape[-2:])[int(rng.integers(int(np.prod(lsizes))))] = 0.0
    dt = str(rng.choice(["float64", "float32"]))
    if rng.random() < 0.1 and float(A.max()) > 0:
        # spectra stored as integers (counts, unscaled packed values): a split keeps them, an interpolated cutoff bin or a
        # variance-preserving factor gives values that are not whole numbers
        A = np.rint(A / (float(A.max()) / float(rng.choice([40.0, 300.0, 3000.0]))))
        dt = str(rng.choice(["int32", "int64"]))
    x = gen.make_da(A, f, th, lnames, lsizes, dtype=dt)
    stored = str(rng.choice(["sorted", "sorted", "rolled", "reversed"]))
    if stored == "rolled":
        x = x.roll(dir=int(rng.integers(1, len(th))), roll_coords=True)
    elif stored == "reversed":
        x = x.isel(dir=slice(None, None, -1))
    return x, lnames, lsizes, stored, dt


def aligned(r, lead, extra=("freq", "dir")):
    return r.transpose("part", *lead, *extra) if "part" in r.dims else r.transpose(*lead, *extra)


# ----------------------------------------------------------------------------------------- PTM4
def ptm4(ctx, rng, xr, utils):
    rec = ctx.rec
    x, lnames, lsizes, stored, dt = dataset(rng, xr)
    f = np.sort(x.freq.values.astype("float64"))
    th = np.sort(x.dir.values.astype("float64"))
    co = {n: x[n] for n in lnames}
    shape = tuple(lsizes)
    boundary = rng.random() < 0.35
    agefac = 1.0 if boundary else float(rng.uniform(0.5, 2.5))
    dpt_v = 10 ** rng.uniform(0.3, 3.7, shape)
    wdir_v = rng.uniform(0, 360, shape)
    wspd_v = rng.uniform(0, 40, shape)
    if boundary:
        # put one bin exactly on the rule's boundary: wind along a grid direction with speed equal
        # to the library's own celerity of a grid frequency at that depth (agefac = 1)
        wdir_v = np.asarray(rng.choice(th, shape), dtype="float64")
        fb = np.asarray(rng.choice(f, shape), dtype="float64")
        wspd_v = np.asarray(utils.celerity(fb, dpt_v), dtype="float64")
    wspd = xr.DataArray(wspd_v, dims=lnames, coords=co)
    wdir = xr.DataArray(wdir_v, dims=lnames, coords=co)
    dpt = xr.DataArray(dpt_v, dims=lnames, coords=co)
    key = "ptm4|%s|%s|lead=%d|boundary=%s" % (stored, dt, len(lnames), boundary)
    try:
        r = x.spec.partition.ptm4(wspd, wdir, dpt, agefac=agefac)
    except Exception as e:
        rec.bad("ptm4", key, {"raised": repr(e)[:300]}, "ptm4-raises")
        return
    if "part" not in r.dims or r.sizes["part"] != 2:
        rec.bad("ptm4", key, {"dims": r.dims, "sizes": dict(r.sizes)}, "ptm4-wrong-part-count")
        return
    xs = x.sortby("dir").sortby("freq").transpose(*lnames, "freq", "dir")
    Ein = xs.values.reshape((-1, len(f), len(th)))
    try:
        R = r.sel(freq=xs.freq, dir=xs.dir).transpose("part", *lnames, "freq", "dir").values.reshape((2, -1, len(f), len(th)))
    except Exception as e:
        rec.bad("ptm4", key, {"raised": repr(e)[:300], "dims": r.dims}, "ptm4-output-not-labelled-like-input")
        return
    for p in range(Ein.shape[0]):
        U, W, D = float(wspd_v.reshape(-1)[p]), float(wdir_v.reshape(-1)[p]), float(dpt_v.reshape(-1)[p])
        c_lib = np.asarray(utils.celerity(f, D), dtype="float64")
        c_ex = 2 * np.pi * f / I.k_exact(f, D)
        if np.max(np.abs(c_lib - c_ex) / c_ex) > 1e-3:
            rec.bad("ptm4", key, {"depth": D, "freq": f, "celerity": c_lib, "exact": c_ex}, "celerity-off-dispersion-relation")
            continue
        up = agefac * U * np.cos(np.radians(th - W))
        C2, U2 = np.tile(c_lib[:, None], (1, len(th))), np.tile(up[None, :], (len(f), 1))
        mask = C2 <= U2
        amb = (np.abs(C2 - U2) <= 1e-9 * np.abs(C2)) & (C2 != U2)
        e = Ein[p]
        sea, swell = R[0, p], R[1, p]
        exp_sea, exp_swell = np.where(mask, e, 0), np.where(mask, 0, e)
        good = np.array_equal(sea[~amb], exp_sea[~amb].astype(sea.dtype)) and np.array_equal(swell[~amb], exp_swell[~amb].astype(swell.dtype))
        disjoint = not np.any((sea != 0) & (swell != 0))
        total = np.array_equal((sea + swell), e.astype(sea.dtype))
        nb = int(((C2 == U2)).sum())
        if nb:
            rec.note("ptm4_bins_exactly_on_boundary", nb)
        if good and disjoint and total:
            rec.ok("ptm4", key, sample={"wind": [U, W, D, agefac], "sea_bins": int(mask.sum()), "on_boundary": nb})
        else:
            wrong = np.argwhere((sea != exp_sea.astype(sea.dtype)) & ~amb)
            rec.bad("ptm4", key, {"wind": [U, W, D, agefac], "freq": f, "dir": th, "disjoint": bool(disjoint), "sums_to_input": bool(total),
                                  "first_wrong_bin": wrong[:1], "bin_on_boundary": bool(nb),
                                  "celerity_minus_wind_component_at_wrong": (C2 - U2)[tuple(wrong[0])] if len(wrong) else None},
                    "ptm4-boundary-bin-misassigned" if (len(wrong) and (C2 == U2)[tuple(wrong[0])]) else "ptm4-membership")


# ----------------------------------------------------------------------------------------- PTM5
def ptm5(ctx, rng, xr):
    rec = ctx.rec
    x, lnames, lsizes, stored, dt = dataset(rng, xr, nfs=(3, 5, 9, 14))
    f = np.sort(x.freq.values.astype("float64"))
    th = x.dir.values.astype("float64")
    on_node = rng.random() < 0.4
    fcut = float(rng.choice(f[1:-1])) if on_node else float(rng.uniform(f[0] * 1.001, f[-1] * 0.999))
    if not on_node and np.min(np.abs(f - fcut)) < 1e-9:
        on_node = True
    interp = bool(rng.random() < 0.7)
    key = "ptm5|%s|%s|lead=%d|cut=%s|interpolate=%s" % (stored, dt, len(lnames), "node" if on_node else "between", interp)
    try:
        r = x.spec.partition.ptm5(fcut) if interp and rng.random() < 0.5 else x.spec.partition.ptm5(fcut, interpolate=interp)
    except Exception as e:
        rec.bad("ptm5", key, {"raised": repr(e)[:300], "fcut": fcut, "freq": f}, "ptm5-raises")
        return
    fo = r.freq.values.astype("float64")
    want_f = f if (on_node or not interp) else np.sort(np.concatenate([f, [fcut]]))
    if not interp:
        on_node = True      # no interpolation: the input grid and values are kept, the cutoff still splits them
    if r.sizes.get("part") != 2 or not np.array_equal(np.sort(fo), want_f):
        rec.bad("ptm5", key, {"freq_out": fo, "want": want_f, "sizes": dict(r.sizes)}, "ptm5-output-grid")
        return
    ths = np.sort(th)
    xs = x.sortby("dir").sortby("freq").transpose(*lnames, "freq", "dir")
    Ein = xs.values.astype("float64").reshape((-1, len(f), len(th)))
    R = r.sortby("freq").sel(dir=ths).transpose("part", *lnames, "freq", "dir").values.astype("float64").reshape((2, -1, len(want_f), len(th)))
    dd = first_two_dd(ths)
    rt = 2e-5 if dt == "float32" else 1e-9
    for p in range(Ein.shape[0]):
        e = Ein[p]
        sea, swell = R[0, p], R[1, p]
        below, above = want_f < fcut, want_f > fcut
        at = ~below & ~above
        probs = []
        if sea[below].any():
            probs.append("sea has energy strictly below the cutoff")
        if swell[above].any():
            probs.append("swell has energy strictly above the cutoff")
        ref = e if on_node else ref_interp(e, f, ths, want_f, None)
        h_in, h_ref = hs2(e, f, dd), hs2(ref, want_f, dd)
        if h_in <= 0 or h_ref <= 0:
            k = 1.0
        else:
            k = 1.0 if on_node else h_in / h_ref
        sc = max(np.abs(e).max(), 1e-300)
        for name, part, keep in (("sea", sea, above | at), ("swell", swell, below | at)):
            ok, worst = close(part[keep], (ref * k)[keep], rt, atol=rt * sc)
            if not ok:
                probs.append("%s differs from input x single factor (worst %.3g)" % (name, worst))
        if probs:
            rec.bad("ptm5", key, {"fcut": fcut, "freq": f, "problems": probs, "factor": k, "on_node": on_node}, "ptm5-" + probs[0].split(" (")[0].replace(" ", "-"))
        else:
            rec.ok("ptm5", key, sample={"fcut": fcut, "factor": k})


# ----------------------------------------------------------------------------------------- BBOX
def bbox(ctx, rng, xr):
    rec = ctx.rec
    x, lnames, lsizes, stored, dt = dataset(rng, xr)
    f = np.sort(x.freq.values.astype("float64"))
    th = np.sort(x.dir.values.astype("float64"))
    nb = int(rng.integers(1, 4))
    overlap = rng.random() < 0.2
    # random boxes whose edges avoid grid nodes (so that "sharing a bin" is unambiguous)
    def edge(lo, hi, nodes):
        for _ in range(50):
            v = float(rng.uniform(lo, hi))
            if np.min(np.abs(nodes - v)) > 1e-6 * max(abs(v), 1):
                return v
        return float(lo - 1e-3)
    layout = str(rng.choice(["bands", "free"]))
    if layout == "free":
        nb = int(rng.integers(2, 5))      # boxes anywhere: frequency ranges may overlap while directions do not
    fe = sorted(edge(f[0] * 0.9, f[-1] * 1.1, f) for _ in range(nb + 1))
    boxes, full = [], []
    for b in range(nb):
        fmin, fmax = fe[b], fe[b + 1]
        if layout == "free":
            fmin, fmax = sorted([edge(f[0] * 0.9, f[-1] * 1.1, f), edge(f[0] * 0.9, f[-1] * 1.1, f)])
        d0, d1 = sorted([edge(-5, 365, th), edge(-5, 365, th)])
        if rng.random() < 0.12:
            d0 = d1 = float(rng.choice(th))          # a box selecting a single direction (zero height)
        box = {"fmin": fmin, "fmax": fmax, "dmin": d0, "dmax": d1}
        fl = dict(box)
        for kdrop, default in (("fmin", float(f.min())), ("fmax", float(f.max())), ("dmin", float(th.min())), ("dmax", float(th.max()))):
            if rng.random() < 0.25:
                box.pop(kdrop)
                fl[kdrop] = default
        if fl["fmin"] >= fl["fmax"]:
            continue
        boxes.append(box)
        full.append(fl)
    if not boxes:
        return
    # omitted limits may make consecutive boxes overlap: decide from the full rectangles
    def bins_of(fl):
        return ((f >= fl["fmin"]) & (f <= fl["fmax"]))[:, None] & ((th >= fl["dmin"]) & (th <= fl["dmax"]))[None, :]
    if overlap and len(boxes) >= 1:
        src = full[0]
        fl = {"fmin": src["fmin"] - 0.001, "fmax": src["fmax"] + 0.001, "dmin": src["dmin"] - 1.0, "dmax": src["dmax"] + 1.0}
        boxes.append(dict(fl))
        full.append(fl)
    masks = [bins_of(fl) for fl in full]
    share = any((masks[i] & masks[j]).any() for i in range(len(masks)) for j in range(i + 1, len(masks)))
    area_overlap = any(not (full[i]["fmax"] <= full[j]["fmin"] or full[j]["fmax"] <= full[i]["fmin"] or full[i]["dmax"] <= full[j]["dmin"] or full[j]["dmax"] <= full[i]["dmin"])
                       for i in range(len(full)) for j in range(i + 1, len(full)))
    omitted = sorted(set(k for b in boxes for k in ("fmin", "fmax", "dmin", "dmax") if k not in b))
    key = "bbox|%s|%s|%s|lead=%d|n=%d|omitted=%s|share=%s" % (layout, stored, dt, len(lnames), len(boxes), "+".join(omitted) or "none", share)
    try:
        r = x.spec.partition.bbox([dict(b) for b in boxes])
    except ValueError as e:
        if share and not area_overlap:
            rec.skip("bbox", "boxes only touch on a grid node (no area in common, yet a bin in both): the statement does not say which")
        elif share or area_overlap:
            rec.ok("bbox_overlap_rejected", key)
        else:
            mech = "bbox-omitted-dmax-defaults-to-lowest-direction" if any("dmax" not in b for b in boxes) else "bbox-disjoint-boxes-rejected"
            rec.bad("bbox", key, {"boxes": boxes, "raised": repr(e)[:300], "freq": f, "dir": th}, mech)
        return
    except Exception as e:
        rec.bad("bbox", key, {"boxes": boxes, "raised": repr(e)[:300]}, "bbox-raises")
        return
    if share and not area_overlap:
        rec.skip("bbox", "boxes only touch on a grid node (no area in common, yet a bin in both): the statement does not say which")
        return
    if share:
        rec.bad("bbox_overlap_rejected", key, {"boxes": boxes, "freq": f, "dir": th}, "bbox-overlapping-boxes-accepted")
        return
    if area_overlap:
        rec.skip("bbox", "boxes overlap in area but share no bin")
        return
    if r.sizes.get("part") != len(boxes) + 1:
        rec.bad("bbox", key, {"parts": r.sizes.get("part"), "boxes": len(boxes)}, "bbox-wrong-part-count")
        return
    xs = x.sortby("dir").sortby("freq").transpose(*lnames, "freq", "dir")
    Ein = xs.values.reshape((-1, len(f), len(th)))
    R = r.sel(freq=xs.freq, dir=xs.dir).transpose("part", *lnames, "freq", "dir").values.reshape((len(boxes) + 1, -1, len(f), len(th)))
    comp = ~np.any(masks, axis=0)
    for p in range(Ein.shape[0]):
        e = Ein[p]
        bad = None
        for b, m in enumerate(masks + [comp]):
            if not np.array_equal(R[b, p], np.where(m, e, 0).astype(R.dtype)):
                bad = b
                break
        tot = np.array_equal(R[:, p].sum(0).astype(R.dtype), e.astype(R.dtype))
        if bad is None and tot:
            rec.ok("bbox", key, sample={"boxes": boxes})
        else:
            mech = "bbox-membership"
            if bad is not None and bad < len(boxes) and "dmax" not in boxes[bad]:
                alt = dict(full[bad], dmax=float(th.min()))
                if np.array_equal(R[bad, p], np.where(bins_of(alt), e, 0).astype(R.dtype)):
                    mech = "bbox-omitted-dmax-defaults-to-lowest-direction"
            rec.bad("bbox", key, {"boxes": boxes, "freq": f, "dir": th, "wrong_part": bad, "sums_to_input": bool(tot)}, mech)


# ----------------------------------------------------------------------------------------- SPLIT
def split(ctx, rng, xr):
    rec = ctx.rec
    x, lnames, lsizes, stored, dt = dataset(rng, xr, nfs=(3, 5, 9, 14))
    f = x.freq.values.astype("float64")
    th = x.dir.values.astype("float64")
    ths = np.sort(th)
    kind = str(rng.choice(["nodes", "between", "between", "narrow", "fmin_only", "fmax_only", "with_dir", "dir_only", "dmin_only", "dmax_only", "with_dmax"]))
    fmin = fmax = dmin = dmax = None
    if kind in ("dir_only", "dmin_only", "dmax_only", "with_dmax") and rng.random() < 0.4:
        # the same circle labelled -180..180: limits are taken on the labels
        th = (th + 180.0) % 360.0 - 180.0
        x = x.assign_coords(dir=th.astype(x.dir.dtype))
        th = x.dir.values.astype("float64")
        ths = np.sort(th)
        stored += "+signed-labels"

    def dlim():
        u = rng.random()
        if u < 0.35 and ths[0] <= 0.0 <= ths[-1]:
            return 0.0                                   # a limit of exactly zero is a limit
        if u < 0.6:
            return float(ths[int(rng.integers(len(ths)))])
        return float(rng.uniform(ths[0] - 5, ths[-1] + 5))
    if kind == "dir_only":
        dmin, dmax = sorted([dlim(), dlim()])
    elif kind == "dmin_only":
        dmin = dlim()
    elif kind in ("dmax_only", "with_dmax"):
        dmax = dlim()
        if kind == "with_dmax":
            fmax = float(rng.uniform(f[0] * 1.001, f[-1] * 0.999))
    if kind == "nodes":
        i, j = sorted(rng.choice(len(f), 2, replace=False))
        fmin, fmax = float(f[i]), float(f[j])
    elif kind in ("between", "with_dir"):
        a, b = sorted(rng.uniform(f[0] * 1.001, f[-1] * 0.999, 2))
        fmin, fmax = float(a), float(b)
        if kind == "with_dir":
            dmin, dmax = sorted([float(rng.uniform(1, 359)), float(rng.uniform(1, 359))])
    elif kind == "narrow":
        i = int(rng.integers(0, len(f) - 1))
        w = f[i + 1] - f[i]
        fmin, fmax = float(f[i] + 0.3 * w), float(f[i] + 0.7 * w)    # no grid frequency inside the band
    elif kind == "fmin_only":
        fmin = float(rng.uniform(f[0] * 1.001, f[-1] * 0.999))
    elif kind == "fmax_only":
        fmax = float(rng.uniform(f[0] * 1.001, f[-1] * 0.999))
    if fmin is not None and fmax is not None and fmax <= fmin:
        return
    if dmin is not None and dmax is not None and dmax <= dmin:
        return
    key = "split|%s|%s|%s|lead=%d" % (kind, stored, dt, len(lnames))
    if 0.0 in (dmin, dmax):
        key += "|zero-limit"
        rec.note("split_direction_limit_exactly_zero")
    kw = {k: v for k, v in (("fmin", fmin), ("fmax", fmax), ("dmin", dmin), ("dmax", dmax)) if v is not None}
    try:
        r = x.spec.split(**kw)
        r = r.compute() if hasattr(r, "compute") else r
    except Exception as e:
        mech = "split-raises"
        inside = f[(f >= (fmin if fmin is not None else -np.inf)) & (f <= (fmax if fmax is not None else np.inf))]
        if isinstance(e, IndexError) and inside.size == 0:
            mech = "split-band-without-grid-frequency-indexerror"
        rec.bad("split", key, dict(kw, raised=repr(e)[:300], freq=f), mech)
        return
    lo = fmin if fmin is not None else f.min()
    hi = fmax if fmax is not None else f.max()
    nodes = f[(f >= lo - 1e-10) & (f <= hi + 1e-10)]
    want_f = list(nodes)
    if fmin is not None and (not len(nodes) or abs(nodes[0] - fmin) > 1e-10):
        want_f = [fmin] + want_f
    if fmax is not None and (not len(nodes) or abs(nodes[-1] - fmax) > 1e-10):
        want_f = want_f + [fmax]
    want_f = np.array(want_f)
    want_d = None
    if dmin is not None or dmax is not None:
        want_d = ths[(ths >= (dmin if dmin is not None else -np.inf)) & (ths <= (dmax if dmax is not None else np.inf))]
    fo = r.freq.values.astype("float64")
    if fo.shape != want_f.shape or np.max(np.abs(fo - want_f)) > 1e-12:
        rec.bad("split", key, dict(kw, freq=f, freq_out=fo, freq_want=want_f), "split-output-frequencies")
        return
    if want_d is not None and not np.array_equal(r.dir.values.astype("float64"), want_d):
        zero_ignored = 0.0 in (dmin, dmax) and np.array_equal(r.dir.values.astype("float64"), th)
        rec.bad("split", key, dict(kw, dir=th, dir_out=r.dir.values, dir_want=want_d), "direction-limit-of-zero-ignored" if zero_ignored else "split-output-directions")
        return
    dsel = th if want_d is None else want_d
    if len(dsel) == 0:
        rec.skip("split", "no direction inside the requested sector")
        return
    R = r.sel(dir=dsel).transpose(*lnames, "freq", "dir").values.astype("float64").reshape((-1, len(fo), len(dsel)))
    Ein = x.sel(dir=dsel).transpose(*lnames, "freq", "dir").values.astype("float64").reshape((-1, len(f), len(dsel)))
    rt = 2e-5 if dt == "float32" else 1e-12
    for p in range(Ein.shape[0]):
        e = Ein[p]
        ref = np.array([np.interp(want_f, f, col) for col in e.T]).T
        isnode = np.array([np.min(np.abs(f - v)) <= 1e-10 for v in want_f])
        exact_ok = np.array_equal(R[p][isnode], ref[isnode])
        ok, worst = close(R[p], ref, rt, atol=rt * max(np.abs(e).max(), 1e-300))
        if exact_ok and ok:
            rec.ok("split", key, sample=dict(kw, freq_out=fo))
        else:
            rec.bad("split", key, dict(kw, freq=f, grid_bins_unchanged=bool(exact_ok), worst_over_tol=worst), "split-values")
    # statistics with limits == statistics of the explicit split
    try:
        names = ["hs", "tm01", "tm02"]
        a = x.spec.stats(names, **kw)
        b = r.spec.stats(names)
        same = all(close(vals(a[n]), vals(b[n]), 1e-12)[0] for n in names)
        (rec.ok("stats_with_limits", key) if same else rec.bad("stats_with_limits", key, dict(kw), "stats-with-limits-differs-from-split"))
    except Exception as e:
        rec.bad("stats_with_limits", key, dict(kw, raised=repr(e)[:300]), "stats-with-limits-raises")
