"""C15: constructed parametric spectra have the parameters they were built from
(reference-model monitor on wavespectra.construct and the accessor measuring its output)."""
import numpy as np

from vf.cmp import close, circ_diff, vals
from vf.oracle import integrals as I


def ideal_spread(th, dm, sig_deg):
    """Published cos^2s((theta-dm)/2), s = 2/sigma^2 - 1, sampled on th and normalised to unit integral."""
    dd = I.circ_dd(th)
    s = 2.0 / np.radians(sig_deg) ** 2 - 1.0
    d = np.abs((th - dm + 180.0) % 360.0 - 180.0)
    g = np.cos(np.radians(d) / 2.0) ** (2.0 * s)
    return g / (g.sum() * dd), dd


def measure(G, th, dd):
    t = np.radians(th)
    S, C, tot = (G * np.sin(t)).sum() * dd, (G * np.cos(t)).sum() * dd, G.sum() * dd
    R = np.hypot(S, C) / tot
    return np.degrees(np.arctan2(S, C)) % 360.0, np.degrees(np.sqrt(max(2 * (1 - R), 0.0)))


def run(ctx):
    import xarray as xr
    import wavespectra  # noqa
    from wavespectra.construct import frequency, direction, construct_partition

    for i, rng in ctx.cases("construct", ctx.n(1300, 40000)):
        one(ctx, rng, xr, frequency, direction, construct_partition)
    for i, rng in ctx.cases("conditional", ctx.n(500, 12000)):
        conditional(ctx, rng, xr, frequency)
    for i, rng in ctx.cases("shape", ctx.n(600, 15000)):
        published_shape(ctx, rng, xr, frequency)


def fgrid(rng):
    kind = str(rng.choice(["log", "linear", "irregular"]))
    nf = int(rng.choice([12, 25, 40, 64]))
    lo, hi = float(rng.uniform(0.02, 0.05)), float(rng.choice([0.3, 0.333, 0.5, 1.0]))
    if kind == "log":
        f = np.geomspace(lo, hi, nf)
    elif kind == "linear":
        f = np.linspace(lo, hi, nf)
    else:
        w = rng.uniform(0.5, 1.5, nf - 1)
        f = lo + np.concatenate([[0], np.cumsum(w)]) / w.sum() * (hi - lo)
    return f, kind


def one(ctx, rng, xr, frequency, direction, construct_partition):
    rec = ctx.rec
    f, fkind = fgrid(rng)
    as_da = bool(rng.random() < 0.5)
    nx = int(rng.choice([0, 0, 1, 3]))     # extra dimension for DataArray parameters

    def par(lo, hi, log=False):
        if nx == 0:
            v = float(10 ** rng.uniform(np.log10(lo), np.log10(hi))) if log else float(rng.uniform(lo, hi))
            return v, np.array([v])
        v = 10 ** rng.uniform(np.log10(lo), np.log10(hi), nx) if log else rng.uniform(lo, hi, nx)
        return xr.DataArray(v, dims=["part"], coords={"part": np.arange(nx)}), v

    hs, hsv = par(0.01, 20, log=True)
    fp, fpv = par(f[1], f[-2])
    gam, gamv = par(1.0, 7.0)
    fq = xr.DataArray(f, dims=["freq"], coords={"freq": f}) if as_da else (f if rng.random() < 0.7 else list(f))
    shape = str(rng.choice(["pierson_moskowitz", "jonswap", "tma", "gaussian"]))
    key = "%s|f=%s:%d|params=%s|freq=%s" % (shape, fkind, len(f), "scalar" if nx == 0 else "DataArray%d" % nx, type(fq).__name__)
    try:
        if shape == "pierson_moskowitz":
            e = frequency.pierson_moskowitz(freq=fq, fp=fp, hs=hs)
        elif shape == "jonswap":
            e = frequency.jonswap(freq=fq, fp=fp, gamma=gam, hs=hs, sigma_a=float(rng.uniform(0.05, 0.1)), sigma_b=float(rng.uniform(0.07, 0.12)))
        elif shape == "tma":
            dep, depv = par(1.0, 1e5, log=True)
            e = frequency.tma(freq=fq, fp=fp, dep=dep, gamma=gam, hs=hs)
        else:
            gw, gwv = par(0.005, 0.1, log=True)
            e = frequency.gaussian(freq=fq, hs=hs, fp=fp, gw=gw)
    except Exception as ex:
        rec.bad("shape_hs", key, {"raised": repr(ex)[:300]}, "construct-raises")
        return
    lead = [d for d in e.dims if d != "freq"]
    ev = e.transpose(*lead, "freq").values
    # --- requested significant height, measured by the accessor -----------------------------------
    h = vals(e.spec.hs(), lead).reshape(-1)
    ok, worst = close(h, hsv, 1e-9)
    if ok and np.all(ev >= 0):
        rec.ok("shape_hs", key, sample={"hs_requested": hsv[:2], "hs_measured": h[:2]})
    else:
        rec.bad("shape_hs", key, {"hs_requested": hsv, "hs_measured": h, "min_density": float(np.nanmin(ev)), "freq": f, "fp": fpv}, "constructed-hs-differs-from-requested" if not ok else "constructed-spectrum-negative")
    # --- identities between shapes -------------------------------------------------------------------
    if shape == "jonswap" and rng.random() < 0.5:
        sk = {} if rng.random() < 0.5 else {"sigma_a": float(rng.uniform(0.04, 0.1)), "sigma_b": float(rng.uniform(0.07, 0.14))}
        ak = {} if rng.random() < 0.6 else {"alpha": float(rng.uniform(0.005, 0.02))}
        hq = hs if rng.random() < 0.7 else None
        a = frequency.jonswap(freq=fq, fp=fp, gamma=1.0, hs=hq, **sk, **ak)
        b = frequency.pierson_moskowitz(freq=fq, fp=fp, hs=hq, **ak)
        okk = close(a.values, b.values, 1e-9, atol=1e-12 * np.abs(b.values).max())[0]
        (rec.ok("jonswap_gamma1_is_pm", key) if okk else rec.bad("jonswap_gamma1_is_pm", key, {"fp": fpv, "hs": hsv}, "jonswap-gamma-1-differs-from-pm"))
    if shape == "tma" and rng.random() < 0.5:
        # same shape parameters on both sides, defaults or not
        sk = {} if rng.random() < 0.4 else {"sigma_a": float(rng.uniform(0.04, 0.1)), "sigma_b": float(rng.uniform(0.07, 0.14))}
        if rng.random() < 0.3:
            sk["alpha"] = float(rng.uniform(0.005, 0.02))
        hq = hs if rng.random() < 0.7 else None      # with and without rescaling to a requested height
        a = frequency.tma(freq=fq, fp=fp, dep=1e5, gamma=gam, hs=hq, **sk)
        b = frequency.jonswap(freq=fq, fp=fp, gamma=gam, hs=hq, **sk)
        okk = close(a.values, b.values, 1e-9, atol=1e-12 * np.abs(b.values).max())[0]
        (rec.ok("tma_deep_is_jonswap", key) if okk else rec.bad("tma_deep_is_jonswap", key, {"fp": fpv, "hs": hsv, "gamma": gamv}, "tma-deep-water-differs-from-jonswap"))
    # --- spreading ---------------------------------------------------------------------------------------
    nd = int(rng.choice([7, 8, 12, 13, 16, 21, 24, 28, 35, 36, 64, 72, 120, 128, 360, 360, 720]))
    dd = 360.0 / nd
    th = float(rng.choice([0.0, dd / 2, rng.uniform(0, dd)])) + dd * np.arange(nd)
    u_ = rng.random()
    if u_ < 0.15:
        th = np.roll(th, 1)                                  # same circle stored from its last label: seam between the first two
    elif u_ < 0.25:
        th = np.roll(th, int(rng.integers(1, nd)))
    elif u_ < 0.32:
        th = th[::-1].copy()
    dq = xr.DataArray(th, dims=["dir"], coords={"dir": th}) if as_da else th
    dmode = str(rng.choice(["anywhere", "seam"]))
    dmv = rng.uniform(0, 360, max(nx, 1)) if dmode == "anywhere" else (rng.uniform(-1, 1, max(nx, 1)) % 360)
    sgv = rng.uniform(5, 80, max(nx, 1))
    if nd >= 360 and rng.random() < 0.6:
        sgv = rng.uniform(1.2, 5, max(nx, 1))         # very narrow beams on grids fine enough to resolve them
    dm = float(dmv[0]) if nx == 0 else xr.DataArray(dmv, dims=["part"], coords={"part": np.arange(nx)})
    sg = float(sgv[0]) if nx == 0 else xr.DataArray(sgv, dims=["part"], coords={"part": np.arange(nx)})
    skey = "cartwright|nd=%d|dm=%s|params=%s" % (nd, dmode, "scalar" if nx == 0 else "DataArray%d" % nx)
    try:
        G = direction.cartwright(dir=dq, dm=dm, dspr=sg)
    except Exception as ex:
        rec.bad("spread_normalised", skey, {"raised": repr(ex)[:300]}, "construct-raises")
        return
    glead = [d for d in G.dims if d != "dir"]
    Gv = G.transpose(*glead, "dir").values.reshape(-1, nd)
    integ = Gv.sum(-1) * dd
    if np.all(Gv >= 0) and np.all(np.abs(integ - 1) <= 1e-12):
        rec.ok("spread_normalised", skey)
    else:
        rec.bad("spread_normalised", skey, {"integral": integ, "min": float(Gv.min()), "dir": th, "dm": dmv, "dspr": sgv}, "spreading-not-normalised-or-negative")
    for k in range(Gv.shape[0]):
        ref, _ = ideal_spread(th, dmv[k], sgv[k])
        okk = close(Gv[k], ref, 1e-9, atol=1e-12 * ref.max())[0]
        zone = "resolved" if (dd <= sgv[k] / 2 and sgv[k] <= 50) else "unresolved"
        (rec.ok("spread_is_cos2s", skey + "|" + zone) if okk else rec.bad("spread_is_cos2s", skey + "|" + zone, {"dir": th, "dm": dmv[k], "dspr": sgv[k], "got": Gv[k], "ideal": ref}, "spreading-differs-from-cos2s"))
    # under_90=True: the same curve restricted to within 90 deg of dm (on the circle), renormalised
    if rng.random() < 0.4:
        try:
            G9 = direction.cartwright(dir=dq, dm=dm, dspr=sg, under_90=True)
            g9 = G9.transpose(*[d for d in G9.dims if d != "dir"], "dir").values.reshape(-1, nd)
            for k in range(g9.shape[0]):
                dth = np.abs((th - dmv[k] + 180.0) % 360.0 - 180.0)
                s_ = 2.0 / np.radians(sgv[k]) ** 2 - 1.0
                ref = np.where(dth <= 90.0, np.cos(np.radians(dth) / 2.0) ** (2.0 * s_), 0.0)
                if np.any(np.abs(dth - 90.0) < 1e-9) or ref.sum() <= 0:
                    rec.skip("spread_under_90", "a direction exactly 90 deg from dm")
                    continue
                ref = ref / (ref.sum() * dd)
                okk = close(g9[k], ref, 1e-9, atol=1e-12 * ref.max())[0] and abs(g9[k].sum() * dd - 1) <= 1e-12
                (rec.ok("spread_under_90", skey) if okk else rec.bad("spread_under_90", skey, {"dir": th, "dm": dmv[k], "dspr": sgv[k], "got": g9[k], "ideal": ref}, "under-90-spreading-wrong"))
        except Exception as ex:
            rec.bad("spread_under_90", skey, {"raised": repr(ex)[:300]}, "construct-raises")
    # asymmetric spreading: normalised and non-negative for every frequency
    if rng.random() < 0.4:
        try:
            Ga = direction.asymmetric(dir=dq, freq=fq, dm=dm, dpm=dm + 4.0, dspr=sg, dpspr=sg * 0.9, fm=fp * 1.1, fp=fp)
            ga = Ga.transpose(..., "dir").values
            integ = ga.sum(-1) * dd
            good = np.all(ga >= 0) and np.all(np.abs(integ - 1) <= 1e-12)
            (rec.ok("asymmetric_normalised", skey) if good else rec.bad("asymmetric_normalised", skey, {"integral_range": [float(integ.min()), float(integ.max())], "min": float(ga.min())}, "spreading-not-normalised-or-negative"))
        except Exception as ex:
            rec.bad("asymmetric_normalised", skey, {"raised": repr(ex)[:300]}, "construct-raises")
    # --- 2-D spectrum = shape x spreading ---------------------------------------------------------------------
    fname = shape
    fk = {"freq": fq, "fp": fp, "hs": hs}
    if shape in ("jonswap", "tma"):
        fk["gamma"] = gam
    if shape == "tma":
        fk["dep"] = 50.0
    if shape == "gaussian":
        fk["gw"] = 0.02
    dk = {"dir": dq, "dm": dm, "dspr": sg}
    if rng.random() < 0.3:
        # the other spreading function through the same constructor: frequency-dependent, still normalised per frequency,
        # so the 2-D spectrum integrates back to the shape and is non-negative
        try:
            dka = {"dir": dq, "freq": fq, "dm": dm, "dpm": dm + 4.0, "dspr": sg, "dpspr": sg * 0.9, "fm": fp * 1.1, "fp": fp}
            S2a = construct_partition(freq_name=fname, dir_name="asymmetric", freq_kwargs=fk, dir_kwargs=dka)
            e1a = getattr(__import__("wavespectra.construct.frequency", fromlist=[fname]), fname)(**fk)
            l2a = [d for d in S2a.dims if d not in ("freq", "dir")]
            o1a = vals(S2a.spec.oned(), l2a + ["freq"])
            oka = close(o1a, e1a.transpose(*l2a, "freq").values, 1e-12, atol=1e-13 * np.abs(e1a.values).max())[0] and bool(np.all(S2a.values >= 0))
            (rec.ok("oned_is_shape_asymmetric", key + "|nd=%d" % nd) if oka else
             rec.bad("oned_is_shape_asymmetric", key, {"nd": nd, "min": float(np.nanmin(S2a.values))}, "2d-spectrum-does-not-integrate-to-shape"))
        except Exception as ex:
            rec.bad("oned_is_shape_asymmetric", key, {"raised": repr(ex)[:300]}, "construct-raises")
    try:
        S2 = construct_partition(freq_name=fname, dir_name="cartwright", freq_kwargs=fk, dir_kwargs=dk)
        e1 = getattr(__import__("wavespectra.construct.frequency", fromlist=[fname]), fname)(**fk)
    except Exception as ex:
        rec.bad("oned_is_shape", key, {"raised": repr(ex)[:300]}, "construct-raises")
        return
    l2 = [d for d in S2.dims if d not in ("freq", "dir")]
    o1 = vals(S2.spec.oned(), l2 + ["freq"])
    okk = close(o1, e1.transpose(*l2, "freq").values, 1e-12, atol=1e-13 * np.abs(e1.values).max())[0]
    (rec.ok("oned_is_shape", key + "|nd=%d" % nd) if okk else rec.bad("oned_is_shape", key, {"nd": nd}, "2d-spectrum-does-not-integrate-to-shape"))
    # measured mean direction and spread: (i) equal those of the ideal sampled reference everywhere,
    # (ii) equal the requested ones in the resolved zone
    mdm = vals(S2.spec.dm(), l2).reshape(-1)
    msp = vals(S2.spec.dspr(), l2).reshape(-1)
    for k in range(len(mdm)):
        ref, _ = ideal_spread(th, dmv[k], sgv[k])
        rdm, rsp = measure(ref, th, dd)
        zone = "resolved" if (dd <= sgv[k] / 2 and sgv[k] <= 50) else "unresolved"
        mk = "dm=%s|nd=%d|%s" % (dmode, nd, zone)
        # spreads at the rounding floor (all energy in one bin): sqrt(2(1-R)) with 1-R ~ 1e-16 is ~1e-6 deg
        g1 = circ_diff(mdm[k], rdm) <= 1e-7 and abs(msp[k] - rsp) <= 1e-6 * max(rsp, 1) + 1e-5
        if rsp <= 1e-5 and np.isnan(msp[k]) and circ_diff(mdm[k], rdm) <= 1e-7:
            # all energy in one bin: 1 - R is +-1e-16 and its square root is 1e-8 rad or NaN, decided by rounding
            rec.skip("measured_equals_sampled_ideal", "spread at the rounding floor (single occupied bin)")
        elif g1:
            rec.ok("measured_equals_sampled_ideal", mk)
        else:
            rec.bad("measured_equals_sampled_ideal", mk, {"dm_measured": mdm[k], "dm_ideal": rdm, "dspr_measured": msp[k], "dspr_ideal": rsp, "dir": th, "dm": dmv[k], "dspr": sgv[k]}, "measured-direction-or-spread-differs-from-sampled-ideal")
        if zone == "resolved":
            g2 = circ_diff(mdm[k], dmv[k]) <= 0.01 and abs(msp[k] - sgv[k]) <= 0.01
            if g2:
                rec.ok("measured_equals_requested", mk)
            else:
                rec.bad("measured_equals_requested", mk, {"dm_measured": mdm[k], "dm_requested": dmv[k], "dspr_measured": msp[k], "dspr_requested": sgv[k], "nd": nd}, "measured-direction-or-spread-differs-from-requested")
        else:
            rec.skip("measured_equals_requested", "grid does not resolve the spread (dd > sigma/2 or sigma > 50 deg)")


G = 9.80665


def ref_pm(f, fp, alpha=0.0081):
    """Pierson and Moskowitz (1964): alpha g^2 (2 pi)^-4 f^-5 exp(-5/4 (f/fp)^-4)."""
    return alpha * G ** 2 * (2 * np.pi) ** -4 * f ** -5.0 * np.exp(-1.25 * (f / fp) ** -4.0)


def ref_jonswap(f, fp, gamma, sa=0.07, sb=0.09, alpha=0.0081):
    """Hasselmann et al. (1973): PM x gamma^exp(-(f-fp)^2 / (2 sigma^2 fp^2)), sigma_a up to fp, sigma_b above."""
    sig = np.where(f <= fp, sa, sb)
    return ref_pm(f, fp, alpha) * gamma ** np.exp(-((f - fp) ** 2) / (2 * sig ** 2 * fp ** 2))


def ref_gauss(f, fp, gw):
    return np.exp(-0.5 * ((f - fp) / gw) ** 2)


def ref_phi(f, d):
    """Kitaigorodskii depth factor of TMA (Bouws et al. 1985) with the exact linear wavenumber (Newton)."""
    w2 = (2 * np.pi * f) ** 2
    k = np.maximum(w2 / G, np.sqrt(w2 / (G * d)))
    for _ in range(60):
        t = np.tanh(k * d)
        k = k - (G * k * t - w2) / (G * t + G * k * d * (1 - t * t))
    kd = np.minimum(k * d, 300.0)
    return np.tanh(kd) ** 2 / (1 + 2 * kd / np.sinh(2 * kd))


def published_shape(ctx, rng, xr, frequency):
    """The constructed E(f) is the published shape: bin-by-bin ratio to its own value at the bin nearest fp
    (independent of the Hs rescaling), absolute values when no Hs is requested, and the maximum sits at fp."""
    rec = ctx.rec
    f, fkind = fgrid(rng)
    shape = str(rng.choice(["pierson_moskowitz", "jonswap", "tma", "gaussian"]))
    on_node = bool(rng.random() < 0.5)
    fp = float(f[int(rng.integers(2, len(f) - 2))]) if on_node else float(rng.uniform(f[2], f[-3]))
    gam = float(rng.uniform(1.0, 7.0))
    sa, sb = float(rng.uniform(0.04, 0.1)), float(rng.uniform(0.07, 0.14))
    alpha = float(rng.uniform(0.004, 0.02))
    gw = float(10 ** rng.uniform(np.log10(0.005), np.log10(0.1)))
    dep = float(10 ** rng.uniform(0, 3))
    with_hs = bool(rng.random() < 0.6) or shape == "gaussian"
    hs = float(10 ** rng.uniform(-2, 1.3)) if with_hs else None
    nx = int(rng.choice([0, 0, 2]))
    key = "%s|f=%s:%d|%s|%s|%s" % (shape, fkind, len(f), "fp-on-node" if on_node else "fp-off-node", "hs" if with_hs else "alpha", "scalar" if nx == 0 else "DataArray")

    def P(v):
        if nx == 0:
            return v
        return xr.DataArray(np.array([v, v]), dims=["site"], coords={"site": [0, 1]})
    try:
        if shape == "pierson_moskowitz":
            e = frequency.pierson_moskowitz(freq=f, fp=P(fp), alpha=alpha, hs=P(hs) if with_hs else None)
            ref = ref_pm(f, fp, alpha)
        elif shape == "jonswap":
            e = frequency.jonswap(freq=f, fp=P(fp), alpha=alpha, gamma=P(gam), sigma_a=sa, sigma_b=sb, hs=P(hs) if with_hs else None)
            ref = ref_jonswap(f, fp, gam, sa, sb, alpha)
        elif shape == "tma":
            e = frequency.tma(freq=f, fp=P(fp), dep=P(dep), alpha=alpha, gamma=P(gam), sigma_a=sa, sigma_b=sb, hs=P(hs) if with_hs else None)
            ref = ref_jonswap(f, fp, gam, sa, sb, alpha) * ref_phi(f, dep)
        else:
            e = frequency.gaussian(freq=f, hs=P(hs), fp=P(fp), gw=P(gw))
            ref = ref_gauss(f, fp, gw)
    except Exception as ex:
        rec.bad("published_shape", key, {"raised": repr(ex)[:300]}, "construct-raises")
        return
    lead = [d for d in e.dims if d != "freq"]
    ev = e.transpose(*lead, "freq").values.reshape(-1, len(f))
    # the dispersion approximation behind the TMA depth factor is good to 0.1 %: phi to ~0.5 %
    rtol = 1e-2 if shape == "tma" else 1e-9
    k = int(np.argmax(ref))
    if not np.isfinite(ref).all() or ref[k] <= 0 or ref[k] < 1e-280:
        rec.skip("published_shape", "reference under/overflows")
        return
    for row in ev:
        if not with_hs:
            okk = close(row, ref, rtol, atol=1e-13 * ref[k])[0]
            (rec.ok("published_absolute", key) if okk else rec.bad("published_absolute", key, {"freq": f, "fp": fp, "got": row, "ref": ref, "gamma": gam, "alpha": alpha, "dep": dep}, "constructed-shape-differs-from-published"))
        if row[k] <= 0 or not np.isfinite(row).all():
            rec.bad("published_shape", key, {"freq": f, "fp": fp, "got": row}, "constructed-shape-differs-from-published")
            continue
        okk = close(row / row[k], ref / ref[k], rtol, atol=1e-12)[0]
        (rec.ok("published_shape", key) if okk else rec.bad("published_shape", key, {"freq": f, "fp": fp, "got": row / row[k], "ref": ref / ref[k], "gamma": gam, "sigma": [sa, sb], "gw": gw, "dep": dep}, "constructed-shape-differs-from-published"))
        # the peak of the constructed spectrum is where it was asked for (fp on a node; deep-water shapes)
        if on_node and shape != "tma":
            kk = int(np.argmax(row))
            (rec.ok("peak_at_fp", key) if f[kk] == fp else rec.bad("peak_at_fp", key, {"freq": f, "fp": fp, "peak": f[kk]}, "constructed-peak-not-at-fp"))


def conditional(ctx, rng, xr, frequency):
    """`conditional` selects: at every position the result is the spectrum of the selected shape built from that
    position's own parameters - also where a parameter that only the other shape uses is undefined there."""
    rec = ctx.rec
    f, fkind = fgrid(rng)
    shapes = ["pierson_moskowitz", "jonswap", "tma", "gaussian"]
    wt, wf = [str(x) for x in rng.choice(shapes, 2, replace=False)]
    nx = int(rng.choice([1, 2, 3, 5, 8]))
    scalar_cond = bool(rng.random() < 0.15)
    dim = str(rng.choice(["part", "time", "site"]))
    co = {dim: np.arange(nx)}

    def A(v):
        return xr.DataArray(np.asarray(v), dims=[dim], coords=co)
    hsv = 10 ** rng.uniform(-2, 1.3, nx)
    fpv = rng.uniform(f[1], f[-2], nx)
    condv = np.full(nx, bool(rng.random() < 0.5)) if scalar_cond else rng.random(nx) < 0.5
    own = {"jonswap": ["gamma"], "tma": ["gamma", "dep"], "gaussian": ["gw"], "pierson_moskowitz": []}
    pv = {"gamma": rng.uniform(1.0, 7.0, nx), "dep": 10 ** rng.uniform(0, 4, nx), "gw": 10 ** rng.uniform(np.log10(0.005), np.log10(0.1), nx)}
    holes = bool(rng.random() < 0.5) and not scalar_cond
    pin = {k: v.copy() for k, v in pv.items()}
    if holes:
        # a parameter used only by the shape that is NOT selected at a position is undefined there
        for nm in set(own[wt]) - set(own[wf]):
            pin[nm][~condv] = np.nan
        for nm in set(own[wf]) - set(own[wt]):
            pin[nm][condv] = np.nan
    kw = {k: A(v) for k, v in pin.items()}
    cond = bool(condv[0]) if scalar_cond else A(condv)
    key = "%s/%s|f=%s:%d|n=%d|cond=%s|%s" % (wt, wf, fkind, len(f), nx, "scalar" if scalar_cond else "array", "undefined-unselected-params" if holes else "all-defined")
    try:
        out = frequency.conditional(freq=f, hs=A(hsv), fp=A(fpv), cond=cond, when_true=wt, when_false=wf, **kw)
    except Exception as ex:
        rec.bad("conditional_selects", key, {"raised": repr(ex)[:300]}, "construct-raises")
        return
    if set(out.dims) != {dim, "freq"}:
        rec.bad("conditional_selects", key, {"dims": list(out.dims)}, "conditional-wrong-dims")
        return
    ov = out.transpose(dim, "freq").values
    hm = vals(out.spec.hs(), [dim]).reshape(-1)
    for i in range(nx):
        name = wt if condv[i] else wf
        args = {"freq": f, "hs": float(hsv[i]), "fp": float(fpv[i])}
        for nm in own[name]:
            args[nm] = float(pv[nm][i])
        single = getattr(frequency, name)(**args).values
        okk = close(ov[i], single, 1e-12, atol=1e-14 * np.abs(single).max())[0] and np.all(ov[i] >= 0)
        okh = close(hm[i:i + 1], hsv[i:i + 1], 1e-9)[0]
        if okk and okh:
            rec.ok("conditional_selects", key)
            if holes:
                rec.note("conditional:undefined-unselected")
        else:
            rec.bad("conditional_selects", key, {"position": i, "selected": name, "hs_requested": hsv[i], "hs_measured": hm[i], "n_nonfinite": int((~np.isfinite(ov[i])).sum()),
                                                  "params": {k: v[i] for k, v in pin.items()}}, "conditional-does-not-select" if not okk else "constructed-hs-differs-from-requested")
