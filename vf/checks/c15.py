"""C15: constructed parametric spectra have the parameters they were built from
(reference-model monitor on wavespectra.construct and the accessor measuring its output)."""
import numpy as np

from vf.cmp import close, circ_diff, vals
from vf.oracle import integrals as I


def ideal_spread(th, dm, sig_deg):
    """Published cos^2s((theta-dm)/2), s = 2/sigma^2 - 1, sampled on th and normalised to unit integral."""
    dd = I.circ_dd(th)
    s = 2.0 / np.radians(sig_deg) ** 2 - 1.0
    d = np.abs((th - dm + 180.0) % 360.0 - 180.0)
    g = np.cos(np.radians(d) / 2.0) ** (2.0 * s)
    return g / (g.sum() * dd), dd


def measure(G, th, dd):
    t = np.radians(th)
    S, C, tot = (G * np.sin(t)).sum() * dd, (G * np.cos(t)).sum() * dd, G.sum() * dd
    R = np.hypot(S, C) / tot
    return np.degrees(np.arctan2(S, C)) % 360.0, np.degrees(np.sqrt(max(2 * (1 - R), 0.0)))


def run(ctx):
    import xarray as xr
    import wavespectra  # noqa
    from wavespectra.construct import frequency, direction, construct_partition

    for i, rng in ctx.cases("construct", ctx.n(1300, 40000)):
        one(ctx, rng, xr, frequency, direction, construct_partition)


def fgrid(rng):
    kind = str(rng.choice(["log", "linear", "irregular"]))
    nf = int(rng.choice([12, 25, 40, 64]))
    lo, hi = float(rng.uniform(0.02, 0.05)), float(rng.choice([0.3, 0.333, 0.5, 1.0]))
    if kind == "log":
        f = np.geomspace(lo, hi, nf)
    elif kind == "linear":
        f = np.linspace(lo, hi, nf)
    else:
        w = rng.uniform(0.5, 1.5, nf - 1)
        f = lo + np.concatenate([[0], np.cumsum(w)]) / w.sum() * (hi - lo)
    return f, kind


def one(ctx, rng, xr, frequency, direction, construct_partition):
    rec = ctx.rec
    f, fkind = fgrid(rng)
    as_da = bool(rng.random() < 0.5)
    nx = int(rng.choice([0, 0, 1, 3]))     # extra dimension for DataArray parameters

    def par(lo, hi, log=False):
        if nx == 0:
            v = float(10 ** rng.uniform(np.log10(lo), np.log10(hi))) if log else float(rng.uniform(lo, hi))
            return v, np.array([v])
        v = 10 ** rng.uniform(np.log10(lo), np.log10(hi), nx) if log else rng.uniform(lo, hi, nx)
        return xr.DataArray(v, dims=["part"], coords={"part": np.arange(nx)}), v

    hs, hsv = par(0.01, 20, log=True)
    fp, fpv = par(f[1], f[-2])
    gam, gamv = par(1.0, 7.0)
    fq = xr.DataArray(f, dims=["freq"], coords={"freq": f}) if as_da else (f if rng.random() < 0.7 else list(f))
    shape = str(rng.choice(["pierson_moskowitz", "jonswap", "tma", "gaussian"]))
    key = "%s|f=%s:%d|params=%s|freq=%s" % (shape, fkind, len(f), "scalar" if nx == 0 else "DataArray%d" % nx, type(fq).__name__)
    try:
        if shape == "pierson_moskowitz":
            e = frequency.pierson_moskowitz(freq=fq, fp=fp, hs=hs)
        elif shape == "jonswap":
            e = frequency.jonswap(freq=fq, fp=fp, gamma=gam, hs=hs, sigma_a=float(rng.uniform(0.05, 0.1)), sigma_b=float(rng.uniform(0.07, 0.12)))
        elif shape == "tma":
            dep, depv = par(1.0, 1e5, log=True)
            e = frequency.tma(freq=fq, fp=fp, dep=dep, gamma=gam, hs=hs)
        else:
            gw, gwv = par(0.005, 0.1, log=True)
            e = frequency.gaussian(freq=fq, hs=hs, fp=fp, gw=gw)
    except Exception as ex:
        rec.bad("shape_hs", key, {"raised": repr(ex)[:300]}, "construct-raises")
        return
    lead = [d for d in e.dims if d != "freq"]
    ev = e.transpose(*lead, "freq").values
    # --- requested significant height, measured by the accessor -----------------------------------
    h = vals(e.spec.hs(), lead).reshape(-1)
    ok, worst = close(h, hsv, 1e-9)
    if ok and np.all(ev >= 0):
        rec.ok("shape_hs", key, sample={"hs_requested": hsv[:2], "hs_measured": h[:2]})
    else:
        rec.bad("shape_hs", key, {"hs_requested": hsv, "hs_measured": h, "min_density": float(np.nanmin(ev)), "freq": f, "fp": fpv}, "constructed-hs-differs-from-requested" if not ok else "constructed-spectrum-negative")
    # --- identities between shapes -------------------------------------------------------------------
    if shape == "jonswap" and rng.random() < 0.5:
        sk = {} if rng.random() < 0.5 else {"sigma_a": float(rng.uniform(0.04, 0.1)), "sigma_b": float(rng.uniform(0.07, 0.14))}
        ak = {} if rng.random() < 0.6 else {"alpha": float(rng.uniform(0.005, 0.02))}
        hq = hs if rng.random() < 0.7 else None
        a = frequency.jonswap(freq=fq, fp=fp, gamma=1.0, hs=hq, **sk, **ak)
        b = frequency.pierson_moskowitz(freq=fq, fp=fp, hs=hq, **ak)
        okk = close(a.values, b.values, 1e-9, atol=1e-12 * np.abs(b.values).max())[0]
        (rec.ok("jonswap_gamma1_is_pm", key) if okk else rec.bad("jonswap_gamma1_is_pm", key, {"fp": fpv, "hs": hsv}, "jonswap-gamma-1-differs-from-pm"))
    if shape == "tma" and rng.random() < 0.5:
        # same shape parameters on both sides, defaults or not
        sk = {} if rng.random() < 0.4 else {"sigma_a": float(rng.uniform(0.04, 0.1)), "sigma_b": float(rng.uniform(0.07, 0.14))}
        if rng.random() < 0.3:
            sk["alpha"] = float(rng.uniform(0.005, 0.02))
        hq = hs if rng.random() < 0.7 else None      # with and without rescaling to a requested height
        a = frequency.tma(freq=fq, fp=fp, dep=1e5, gamma=gam, hs=hq, **sk)
        b = frequency.jonswap(freq=fq, fp=fp, gamma=gam, hs=hq, **sk)
        okk = close(a.values, b.values, 1e-9, atol=1e-12 * np.abs(b.values).max())[0]
        (rec.ok("tma_deep_is_jonswap", key) if okk else rec.bad("tma_deep_is_jonswap", key, {"fp": fpv, "hs": hsv, "gamma": gamv}, "tma-deep-water-differs-from-jonswap"))
    # --- spreading ---------------------------------------------------------------------------------------
    nd = int(rng.choice([7, 8, 12, 13, 16, 21, 24, 28, 35, 36, 64, 72, 120, 128, 360, 360, 720]))
    dd = 360.0 / nd
    th = float(rng.choice([0.0, dd / 2, rng.uniform(0, dd)])) + dd * np.arange(nd)
    u_ = rng.random()
    if u_ < 0.15:
        th = np.roll(th, 1)                                  # same circle stored from its last label: seam between the first two
    elif u_ < 0.25:
        th = np.roll(th, int(rng.integers(1, nd)))
    elif u_ < 0.32:
        th = th[::-1].copy()
    dq = xr.DataArray(th, dims=["dir"], coords={"dir": th}) if as_da else th
    dmode = str(rng.choice(["anywhere", "seam"]))
    dmv = rng.uniform(0, 360, max(nx, 1)) if dmode == "anywhere" else (rng.uniform(-1, 1, max(nx, 1)) % 360)
    sgv = rng.uniform(5, 80, max(nx, 1))
    if nd >= 360 and rng.random() < 0.6:
        sgv = rng.uniform(1.2, 5, max(nx, 1))         # very narrow beams on grids fine enough to resolve them
    dm = float(dmv[0]) if nx == 0 else xr.DataArray(dmv, dims=["part"], coords={"part": np.arange(nx)})
    sg = float(sgv[0]) if nx == 0 else xr.DataArray(sgv, dims=["part"], coords={"part": np.arange(nx)})
    skey = "cartwright|nd=%d|dm=%s|params=%s" % (nd, dmode, "scalar" if nx == 0 else "DataArray%d" % nx)
    try:
        G = direction.cartwright(dir=dq, dm=dm, dspr=sg)
    except Exception as ex:
        rec.bad("spread_normalised", skey, {"raised": repr(ex)[:300]}, "construct-raises")
        return
    glead = [d for d in G.dims if d != "dir"]
    Gv = G.transpose(*glead, "dir").values.reshape(-1, nd)
    integ = Gv.sum(-1) * dd
    if np.all(Gv >= 0) and np.all(np.abs(integ - 1) <= 1e-12):
        rec.ok("spread_normalised", skey)
    else:
        rec.bad("spread_normalised", skey, {"integral": integ, "min": float(Gv.min()), "dir": th, "dm": dmv, "dspr": sgv}, "spreading-not-normalised-or-negative")
    for k in range(Gv.shape[0]):
        ref, _ = ideal_spread(th, dmv[k], sgv[k])
        okk = close(Gv[k], ref, 1e-9, atol=1e-12 * ref.max())[0]
        zone = "resolved" if (dd <= sgv[k] / 2 and sgv[k] <= 50) else "unresolved"
        (rec.ok("spread_is_cos2s", skey + "|" + zone) if okk else rec.bad("spread_is_cos2s", skey + "|" + zone, {"dir": th, "dm": dmv[k], "dspr": sgv[k], "got": Gv[k], "ideal": ref}, "spreading-differs-from-cos2s"))
    # under_90=True: the same curve restricted to within 90 deg of dm (on the circle), renormalised
    if rng.random() < 0.4:
        try:
            G9 = direction.cartwright(dir=dq, dm=dm, dspr=sg, under_90=True)
            g9 = G9.transpose(*[d for d in G9.dims if d != "dir"], "dir").values.reshape(-1, nd)
            for k in range(g9.shape[0]):
                dth = np.abs((th - dmv[k] + 180.0) % 360.0 - 180.0)
                s_ = 2.0 / np.radians(sgv[k]) ** 2 - 1.0
                ref = np.where(dth <= 90.0, np.cos(np.radians(dth) / 2.0) ** (2.0 * s_), 0.0)
                if np.any(np.abs(dth - 90.0) < 1e-9) or ref.sum() <= 0:
                    rec.skip("spread_under_90", "a direction exactly 90 deg from dm")
                    continue
                ref = ref / (ref.sum() * dd)
                okk = close(g9[k], ref, 1e-9, atol=1e-12 * ref.max())[0] and abs(g9[k].sum() * dd - 1) <= 1e-12
                (rec.ok("spread_under_90", skey) if okk else rec.bad("spread_under_90", skey, {"dir": th, "dm": dmv[k], "dspr": sgv[k], "got": g9[k], "ideal": ref}, "under-90-spreading-wrong"))
        except Exception as ex:
            rec.bad("spread_under_90", skey, {"raised": repr(ex)[:300]}, "construct-raises")
    # asymmetric spreading: normalised and non-negative for every frequency
    if rng.random() < 0.4:
        try:
            Ga = direction.asymmetric(dir=dq, freq=fq, dm=dm, dpm=dm + 4.0, dspr=sg, dpspr=sg * 0.9, fm=fp * 1.1, fp=fp)
            ga = Ga.transpose(..., "dir").values
            integ = ga.sum(-1) * dd
            good = np.all(ga >= 0) and np.all(np.abs(integ - 1) <= 1e-12)
            (rec.ok("asymmetric_normalised", skey) if good else rec.bad("asymmetric_normalised", skey, {"integral_range": [float(integ.min()), float(integ.max())], "min": float(ga.min())}, "spreading-not-normalised-or-negative"))
        except Exception as ex:
            rec.bad("asymmetric_normalised", skey, {"raised": repr(ex)[:300]}, "construct-raises")
    # --- 2-D spectrum = shape x spreading ---------------------------------------------------------------------
    fname = shape
    fk = {"freq": fq, "fp": fp, "hs": hs}
    if shape in ("jonswap", "tma"):
        fk["gamma"] = gam
    if shape == "tma":
        fk["dep"] = 50.0
    if shape == "gaussian":
        fk["gw"] = 0.02
    dk = {"dir": dq, "dm": dm, "dspr": sg}
    try:
        S2 = construct_partition(freq_name=fname, dir_name="cartwright", freq_kwargs=fk, dir_kwargs=dk)
        e1 = getattr(__import__("wavespectra.construct.frequency", fromlist=[fname]), fname)(**fk)
    except Exception as ex:
        rec.bad("oned_is_shape", key, {"raised": repr(ex)[:300]}, "construct-raises")
        return
    l2 = [d for d in S2.dims if d not in ("freq", "dir")]
    o1 = vals(S2.spec.oned(), l2 + ["freq"])
    okk = close(o1, e1.transpose(*l2, "freq").values, 1e-12, atol=1e-13 * np.abs(e1.values).max())[0]
    (rec.ok("oned_is_shape", key + "|nd=%d" % nd) if okk else rec.bad("oned_is_shape", key, {"nd": nd}, "2d-spectrum-does-not-integrate-to-shape"))
    # measured mean direction and spread: (i) equal those of the ideal sampled reference everywhere,
    # (ii) equal the requested ones in the resolved zone
    mdm = vals(S2.spec.dm(), l2).reshape(-1)
    msp = vals(S2.spec.dspr(), l2).reshape(-1)
    for k in range(len(mdm)):
        ref, _ = ideal_spread(th, dmv[k], sgv[k])
        rdm, rsp = measure(ref, th, dd)
        zone = "resolved" if (dd <= sgv[k] / 2 and sgv[k] <= 50) else "unresolved"
        mk = "dm=%s|nd=%d|%s" % (dmode, nd, zone)
        # spreads at the rounding floor (all energy in one bin): sqrt(2(1-R)) with 1-R ~ 1e-16 is ~1e-6 deg
        g1 = circ_diff(mdm[k], rdm) <= 1e-7 and abs(msp[k] - rsp) <= 1e-6 * max(rsp, 1) + 1e-5
        if rsp <= 1e-5 and np.isnan(msp[k]) and circ_diff(mdm[k], rdm) <= 1e-7:
            # all energy in one bin: 1 - R is +-1e-16 and its square root is 1e-8 rad or NaN, decided by rounding
            rec.skip("measured_equals_sampled_ideal", "spread at the rounding floor (single occupied bin)")
        elif g1:
            rec.ok("measured_equals_sampled_ideal", mk)
        else:
            rec.bad("measured_equals_sampled_ideal", mk, {"dm_measured": mdm[k], "dm_ideal": rdm, "dspr_measured": msp[k], "dspr_ideal": rsp, "dir": th, "dm": dmv[k], "dspr": sgv[k]}, "measured-direction-or-spread-differs-from-sampled-ideal")
        if zone == "resolved":
            g2 = circ_diff(mdm[k], dmv[k]) <= 0.01 and abs(msp[k] - sgv[k]) <= 0.01
            if g2:
                rec.ok("measured_equals_requested", mk)
            else:
                rec.bad("measured_equals_requested", mk, {"dm_measured": mdm[k], "dm_requested": dmv[k], "dspr_measured": msp[k], "dspr_requested": sgv[k], "nd": nd}, "measured-direction-or-spread-differs-from-requested")
        else:
            rec.skip("measured_equals_requested", "grid does not resolve the spread (dd > sigma/2 or sigma > 50 deg)")
