"""C08: regridding is exact on nodes, conserves variance and respects the circle
(reference-model + invariant monitor on interp / interp_like / regrid_spec / rotate)."""
import numpy as np

from vf import gen
from vf.cmp import close
from vf.oracle import integrals as I


def first_two_dd(th):
    if len(th) < 2:
        return 1.0
    d = abs(float(th[1]) - float(th[0])) % 360.0
    return min(d, 360.0 - d)


def ref_interp(E, f, th, ft, tht):
    """Separable linear interpolation of one spectrum E(f, th) as documented: circular in direction
    with both seam neighbours, zero anchor at f=0 below the lowest source frequency, zero above
    the highest. Returns the *unscaled* interpolant on (ft or f, tht or th)."""
    E = np.asarray(E, dtype="float64")
    f = np.asarray(f, dtype="float64")
    if tht is not None:
        d = np.asarray(th, dtype="float64") % 360.0
        _, idx = np.unique(d, return_index=True)
        ds, Es = d[idx], E[:, idx]
        dext = np.concatenate([[ds[-1] - 360.0], ds, [ds[0] + 360.0]])
        Eext = np.concatenate([Es[:, -1:], Es, Es[:, :1]], axis=1)
        E = np.array([np.interp(np.asarray(tht, dtype="float64"), dext, row) for row in Eext])
    if ft is not None:
        ft = np.asarray(ft, dtype="float64")
        o = np.argsort(f)
        fs, Es = f[o], E[o]
        if ft.min() < fs.min():
            fs = np.concatenate([[0.0], fs])
            Es = np.concatenate([np.zeros((1, Es.shape[1])), Es], axis=0)
        E = np.array([np.interp(ft, fs, col, left=0.0, right=0.0) for col in Es.T]).T
    return E


def hs2(E, f, dd):
    e1 = dd * np.asarray(E, dtype="float64").sum(-1)
    return 16.0 * I.m0_tail(e1, np.asarray(f, dtype="float64"), True)


def run(ctx):
    import xarray as xr
    import wavespectra  # noqa
    from wavespectra.core import utils

    for i, rng in ctx.cases("regrid", ctx.n(900, 30000)):
        regrid(ctx, rng, xr, utils)
    for i, rng in ctx.cases("rotate", ctx.n(600, 20000)):
        rotate(ctx, rng, xr)
    for i, rng in ctx.cases("rotate_irregular", ctx.n(300, 8000)):
        rotate_irregular(ctx, rng, xr)
    for i, rng in ctx.cases("interp_spec_helper", ctx.n(600, 15000)):
        interp_helper(ctx, rng, utils)


def interp_helper(ctx, rng, utils):
    """The array-level regridding helper the file readers use (`core.utils.interp_spec`), on its deterministic branches:
    same grid -> the same values; directions unchanged -> linear in frequency per direction, stored values on the
    nodes, zero outside the source range; 1-D spectra (indir=None). Grids from one frequency upward."""
    rec = ctx.rec
    nf = int(rng.choice([1, 1, 2, 3, 7, 20]))
    nd = int(rng.choice([1, 2, 8, 24]))
    f = np.sort(rng.uniform(0.03, 0.6, nf)) if rng.random() < 0.5 else 0.04 * 1.1 ** np.arange(nf)
    th = np.arange(nd) * (360.0 / nd)
    oned = rng.random() < 0.25
    E = rng.random((nf,)) if oned else rng.random((nf, nd)) * (rng.random((nf, nd)) < 0.8)
    mode = str(rng.choice(["same", "nodes+between", "wider", "subset"]))
    if mode == "same":
        ft = f.copy()
    elif mode == "nodes+between":
        ft = np.sort(np.concatenate([f, rng.uniform(f[0] * 0.9, f[-1] * 1.1, int(rng.integers(1, 6)))]))
    elif mode == "wider":
        ft = np.linspace(f[0] * 0.5, f[-1] * 1.5, int(rng.integers(2, 12)))
    else:
        ft = f[:: int(rng.integers(1, 3))]
    key = "nf=%s|nd=%s|%s|%s" % ("1" if nf == 1 else ("2" if nf == 2 else "n"), "-" if oned else ("1" if nd == 1 else "n"), mode, "1d" if oned else "2d")
    E0, f0, th0, ft0 = E.copy(), f.copy(), th.copy(), ft.copy()
    try:
        out = utils.interp_spec(E, f, None if oned else th, ft, None if oned else th.copy())
    except Exception as e:
        rec.bad("interp_spec", key, {"raised": repr(e)[:300], "freq": f, "target": ft}, "array-helper-raises")
        return
    out = np.asarray(out, dtype="float64")
    want = np.interp(ft, f, E, left=0.0, right=0.0) if oned else np.array([np.interp(ft, f, E[:, k], left=0.0, right=0.0) for k in range(nd)]).T
    if out.shape != want.shape:
        rec.bad("interp_spec", key, {"shape": out.shape, "expected_shape": want.shape}, "array-helper-shape")
        return
    ok, worst = close(out, want, 1e-12, atol=1e-15)
    if ok and np.array_equal(E, E0) and np.array_equal(f, f0) and np.array_equal(ft, ft0):
        rec.ok("interp_spec", key)
    elif not ok:
        rec.bad("interp_spec", key, {"freq": f, "target": ft, "spectrum": E, "returned": out, "expected": want, "worst_over_tol": worst,
                                     "nan_returned": bool(np.isnan(out).any())}, "array-helper-not-the-linear-interpolant")
    else:
        rec.bad("interp_spec", key, {"freq": f}, "array-helper-changed-its-arguments")


def source(rng, xr, exact=False):
    nf = int(rng.choice([2, 3, 5, 9, 15]))
    cd = str(rng.choice(["float64", "float64", "float32", "intdir"]))
    f, fm = gen.freq_grid(rng, nf=nf, dtype="float32" if cd == "float32" else "float64")
    f = f.astype("float64")
    th, dd, dmeta = gen.dir_grid(rng, nd=int(rng.choice([3, 4, 6, 8, 12, 24, 36])), full=True, exact=exact)
    lnames, lsizes = gen.lead_dims(rng, nlead=int(rng.choice([0, 0, 1, 2])), maxsize=3)
    npos = int(np.prod(lsizes)) if lsizes else 1
    specs = []
    for p in range(npos):
        cls = str(rng.choice(["multimodal", "smooth", "noise", "single_bin", "zeros"], p=[.4, .2, .2, .1, .1]))
        specs.append(gen.spectrum(rng, f, th, cls)[0])
    A = np.array(specs).reshape(tuple(lsizes) + (nf, len(th)))
    x = gen.make_da(A, f, th, lnames, lsizes)
    stored = str(rng.choice(["sorted", "sorted", "rolled", "seam_first", "reversed", "reversed_seam_first", "shuffled", "dup360"]))
    if stored == "rolled":
        x = x.roll(dir=int(rng.integers(1, len(th))), roll_coords=True)
    elif stored == "seam_first":
        x = x.roll(dir=1, roll_coords=True)                      # [last, first, second, ...]: the seam between the first two stored labels
    elif stored == "reversed":
        x = x.isel(dir=slice(None, None, -1))
    elif stored == "reversed_seam_first":
        x = x.isel(dir=slice(None, None, -1)).roll(dir=1, roll_coords=True)      # [first, last, second-last, ...]: descending, seam first
    elif stored == "shuffled":
        x = x.isel(dir=rng.permutation(len(th)))
    elif stored == "dup360":
        # grid 0..360 inclusive with the closing bin duplicating the first
        nd = len(th)
        th0 = np.arange(nd) * (360.0 / nd)
        x = x.assign_coords(dir=th0)
        last = x.isel(dir=[0]).assign_coords(dir=[360.0])
        x = xr.concat([x, last], dim="dir")
    if cd == "float32":
        x = x.assign_coords(freq=x.freq.values.astype("float32"), dir=x.dir.values.astype("float32"))
    elif cd == "intdir" and np.allclose(x.dir.values, np.round(x.dir.values)):
        x = x.assign_coords(dir=np.round(x.dir.values).astype("int64"))
    else:
        cd = "float64" if cd == "intdir" else cd
    if rng.random() < 0.1 and float(np.nanmax(x.values)) > 0:
        # spectra stored as integers (counts, unscaled packed values): interpolated values are not whole numbers
        q_ = float(np.nanmax(x.values)) / float(rng.choice([40.0, 300.0, 3000.0]))
        x = x.copy(data=np.rint(x.values / q_).astype(str(rng.choice(["int32", "int64"]))))
    x.attrs["_coord_dtype"] = cd
    return x, stored, lnames


def regrid(ctx, rng, xr, utils):
    rec = ctx.rec
    x, stored, lnames = source(rng, xr)
    cd = x.attrs.pop("_coord_dtype")
    # float32 coordinates: the interpolation weights are formed from single-precision labels (incl. label +- 360 across
    # the seam), i.e. carry eps32 * 360 / bin width; T scales every value tolerance (coordinates stay bit-exact)
    T = 1.0
    if cd == "float32":
        d_ = np.sort(x.dir.values.astype("float64"))
        T = max(3e4, 4e-7 * 360.0 / max(np.diff(d_).min() if d_.size > 1 else 360.0, 1e-3) / 1e-9)
    if stored != "dup360" and x.sizes["dir"] >= 6 and rng.random() < 0.15:
        # source sector grid: one or two adjacent bins missing (not among the first two stored labels, which define
        # the bin width), so that the gap across the seam / inside the grid differs from the bin width
        ndx = x.sizes["dir"]
        j = int(rng.integers(2, ndx - 1))
        drop = {j, j + 1} if (rng.random() < 0.4 and j + 1 < ndx) else {j}
        x = x.isel(dir=[k for k in range(ndx) if k not in drop])
        stored += "+gap"
    f = x.freq.values.astype("float64")
    th = x.dir.values.astype("float64")
    nf, nd = len(f), len(th)
    mode = str(rng.choice(["identity", "freq", "dir", "both", "both", "like"]))
    # ---- targets ------------------------------------------------------------------------------
    ft = tht = None
    if mode == "identity":
        which = str(rng.choice(["freq", "dir", "both"]))
        ft = f.copy() if which in ("freq", "both") else None
        tht = th.copy() if which in ("dir", "both") else None
    else:
        if mode in ("freq", "both", "like"):
            kind = str(rng.choice(["finer", "coarser", "shifted", "below", "above", "below_above", "just_above", "subset"]))
            n = {"finer": 2 * nf + 1, "coarser": max(2, nf // 2 + 1)}.get(kind, nf + 1)
            lo, hi = f.min(), f.max()
            if kind in ("below", "below_above"):
                lo = lo * float(rng.uniform(0.2, 0.9))
            if kind in ("above", "below_above"):
                hi = hi * float(rng.uniform(1.1, 1.6))
            if kind == "shifted":
                lo, hi = lo * 1.03, hi * 0.97
            ft = np.linspace(lo, hi, n)
            if kind == "just_above":
                # the source's own nodes plus one a hair above the top source frequency: that node holds no energy
                ft = np.concatenate([np.sort(f), [f.max() * (1 + float(rng.choice([1e-6, 3e-6, 9e-6])))]])
            elif kind == "subset" and nf >= 3:
                # a thinned or cropped selection of the source's own nodes: still a regridding (the measured Hs is kept)
                fs_ = np.sort(f)
                ft = fs_[::2] if rng.random() < 0.5 else fs_[:max(2, int(rng.integers(2, nf)))]
        else:
            kind = "none"
        if mode in ("dir", "both", "like"):
            ndt = int(rng.choice([4, 8, 12, 18, 36, 72]))
            ddt = 360.0 / ndt
            tht = float(rng.choice([0.0, ddt / 2, rng.uniform(0, ddt)])) + ddt * np.arange(ndt)
            if "gap" not in stored and stored != "dup360" and nd >= 6 and rng.random() < 0.15:
                # every second / third source direction: a subset of the source's own nodes
                tht = np.sort(th)[int(rng.integers(0, 2))::int(rng.choice([2, 3]))]
                kind += "+subsetdirs"
            elif "gap" not in stored and stored != "dup360" and rng.random() < 0.25:
                # the target holds exactly the source's direction bins, stored in another order
                tht = np.sort(th)
                kind += "+samedirs"
            u = rng.random()
            if u < 0.15 and len(tht) > 1:
                tht = np.roll(tht, int(rng.integers(1, len(tht))))
            elif u < 0.3:
                tht = tht[::-1].copy()
    maintain = bool(rng.random() < 0.8) or mode == "identity"
    via = str(rng.choice(["interp", "regrid_spec", "dataset"])) if mode != "like" else "interp_like"
    key = "%s|src=%s|coords=%s|nf=%d|nd=%d|lead=%d|m0=%s|via=%s" % (mode if mode != "freq" and mode != "both" else mode + ":" + kind, stored, cd, nf, nd, len(lnames), maintain, via)
    try:
        if via == "interp":
            r = x.spec.interp(freq=ft, dir=tht, maintain_m0=maintain)
        elif via == "dataset":
            r = x.to_dataset(name="efth").spec.interp(freq=ft, dir=tht, maintain_m0=maintain)
        elif via == "interp_like":
            other = xr.DataArray(np.zeros((len(ft), len(tht))), dims=["freq", "dir"], coords={"freq": ft, "dir": tht}, name="efth")
            r = x.spec.interp_like(other, maintain_m0=maintain)
        else:
            r = utils.regrid_spec(x, freq=None if ft is None else list(ft) if rng.random() < 0.3 else ft, dir=tht, maintain_m0=maintain)
    except Exception as e:
        rec.bad("regrid", key, {"raised": repr(e)[:300], "freq_src": f, "dir_src": th, "freq_t": ft, "dir_t": tht}, "regrid-raises")
        return
    r = r.transpose(*lnames, "freq", "dir")
    fo, tho = r.freq.values.astype("float64"), r.dir.values.astype("float64")
    det = {"freq_src": f, "dir_src": th, "freq_t": ft, "dir_t": tht, "maintain_m0": maintain, "via": via}
    # ---- coordinates returned exactly -------------------------------------------------------------
    want_f = f if ft is None else ft
    want_d = th if tht is None else tht
    if np.array_equal(fo, want_f) and np.array_equal(tho, want_d):
        rec.ok("coords_exact", key)
    else:
        rec.bad("coords_exact", key, dict(det, freq_out=fo, dir_out=tho), "regrid-coordinates-not-as-requested")
        return
    Ein = x.transpose(*lnames, "freq", "dir").values.astype("float64").reshape(-1, nf, nd)
    Eout = r.values.astype("float64").reshape(-1, len(fo), len(tho))
    dd_in, dd_out = first_two_dd(th), first_two_dd(tho)
    for p in range(Ein.shape[0]):
        ei, eo = Ein[p], Eout[p]
        zero_in = not ei.any()
        if np.isnan(eo).any():
            rec.bad("finite", key, dict(det, position=p, zero_energy_input=zero_in), "regrid-nan-on-zero-energy" if (zero_in or not np.nan_to_num(ref_interp(ei, f, th, ft, tht)).any()) else "regrid-nan")
            continue
        sc = max(np.abs(ei).max(), 1e-300)
        # identity on the source grid
        if mode == "identity":
            ok, worst = close(eo, ei, 1e-12 if T == 1.0 else 1e-9 * T, atol=(1e-12 if T == 1.0 else 1e-9 * T) * sc)
            (rec.ok("identity", key) if ok else rec.bad("identity", key, dict(det, position=p, worst_over_tol=worst, input=ei, output=eo), "regrid-not-identity-on-source-grid"))
            continue
        # non-negativity, zero above the highest source frequency
        if eo.min() < -1e-12 * sc:
            rec.bad("nonnegative", key, dict(det, position=p, min=float(eo.min())), "regrid-negative-energy")
        else:
            rec.ok("nonnegative", key)
        above = fo > f.max() * (1 + 1e-12)
        if above.any():
            (rec.ok("zero_above_fmax", key) if not eo[above].any() else rec.bad("zero_above_fmax", key, dict(det, position=p, values=eo[above]), "regrid-energy-above-source-fmax"))
        # reference interpolant and conservation
        ref = ref_interp(ei, f, th, ft, tht)
        h_in, h_ref = hs2(ei, f, dd_in), hs2(ref, fo, dd_out)
        if maintain:
            if h_ref <= 1e-14 * max(h_in, 1e-300) or h_in <= 0:
                rec.skip("conservation", "interpolant has no energy (conservation undefined)")
                if not ref.any() and not eo.any():
                    rec.ok("reference", key)
                continue
            h_out = hs2(eo, fo, dd_out)
            ok = abs(h_out - h_in) <= 2e-9 * T * h_in
            (rec.ok("conservation", key, sample={"hs_in": np.sqrt(h_in), "hs_out": np.sqrt(h_out)}) if ok else
             rec.bad("conservation", key, dict(det, position=p, hs_in=np.sqrt(h_in), hs_out=np.sqrt(h_out)), "regrid-variance-not-conserved"))
            ref = ref * (h_in / h_ref)
        ok, worst = close(eo, ref, 1e-9 * T, atol=1e-9 * T * max(np.abs(ref).max(), 1e-300))
        (rec.ok("reference", key) if ok else rec.bad("reference", key, dict(det, position=p, worst_over_tol=worst, output=eo, reference=ref, input=ei), "regrid-differs-from-linear-interpolant"))


def rotate_irregular(ctx, rng, xr):
    """Rotation is a regridding with the default variance conservation: on direction axes that are not a regular
    once-around circle (closing 0/360 bin stored twice, a bin or two missing) every record still keeps its axes, stays
    non-negative and keeps the significant height the accessor measures on that axis."""
    rec = ctx.rec
    x, stored, lnames = source(rng, xr, exact=True)
    cd = x.attrs.pop("_coord_dtype")
    if cd == "float32":
        return
    if stored != "dup360":
        n = x.sizes["dir"]
        if n < 6:
            return
        srt = x.sortby("dir")
        drop = sorted(set(int(v) for v in rng.choice(np.arange(1, n), size=int(rng.integers(1, 3)), replace=False)))
        x = srt.isel(dir=[i for i in range(n) if i not in drop])
        stored = "gapped%d" % len(drop)
    th = x.dir.values.astype("float64")
    f = x.freq.values.astype("float64")
    step = float(np.min(np.diff(np.sort(th))))
    kind = str(rng.choice(["bins", "any", "full_turn"]))
    angle = {"bins": float(int(rng.integers(-10, 11)) * step), "full_turn": 360.0}.get(kind, float(rng.uniform(-400, 400)))
    key = "rotate_irregular:%s|src=%s|nf=%d|nd=%d|lead=%d" % (kind, stored, len(f), len(th), len(lnames))
    try:
        h0 = np.asarray(x.spec.hs().values, dtype="float64").reshape(-1)
        r = x.spec.rotate(angle)
        h1 = np.asarray(r.spec.hs().values, dtype="float64").reshape(-1)
    except Exception as e:
        rec.bad("rotate_irregular", key, {"raised": repr(e)[:300], "angle": angle, "dir": th}, "rotate-raises")
        return
    det = {"angle": angle, "dir": th, "freq": f}
    if tuple(r.dims) != tuple(x.dims) or not np.array_equal(r.dir.values, x.dir.values) or not np.array_equal(r.freq.values, x.freq.values):
        rec.bad("rotate_irregular", key, dict(det, dir_out=r.dir.values), "rotate-changes-coordinates")
        return
    v = np.asarray(r.values, dtype="float64")
    if np.isnan(v).any() or v.min() < -1e-12 * max(float(np.abs(x.values).max()), 1e-300):
        rec.bad("rotate_irregular", key, dict(det, min=float(np.nanmin(v)), nans=int(np.isnan(v).sum())), "rotate-negative-energy" if not np.isnan(v).any() else "rotate-nan")
        return
    for p in range(h0.size):
        if h0[p] <= 0:
            (rec.ok("rotate_irregular", key) if h1[p] == 0 else rec.bad("rotate_irregular", key, dict(det, position=p, hs_in=h0[p], hs_out=h1[p]), "rotate-changes-hs"))
        elif h1[p] == 0:
            # every bit of energy turned into the gap of the axis: nothing left to rescale (not a conservation failure)
            rec.skip("rotate_irregular", "all energy rotated off the stored directions")
        elif abs(h1[p] - h0[p]) <= 1e-9 * h0[p]:
            rec.ok("rotate_irregular", key, sample={"angle": angle, "hs": h0[p]})
        else:
            rec.bad("rotate_irregular", key, dict(det, position=p, hs_in=h0[p], hs_out=h1[p]), "rotate-changes-hs")


def rotate(ctx, rng, xr):
    rec = ctx.rec
    # direction grids on exactly representable nodes, or not (0.1..350.1, 360/7-degree bins: a whole-bin rotation then
    # lands within rounding of the nodes, not on them)
    x, stored, lnames = source(rng, xr, exact=bool(rng.random() < 0.65))
    cd = x.attrs.pop("_coord_dtype")
    T = 1.0
    if cd == "float32":
        d_ = np.sort(x.dir.values.astype("float64"))
        T = max(3e4, 4e-7 * 360.0 / max(np.diff(d_).min() if d_.size > 1 else 360.0, 1e-3) / 1e-9)
    if stored == "dup360":
        x = x.isel(dir=slice(0, -1))
        stored = "sorted"
    f = x.freq.values.astype("float64")
    th = x.dir.values.astype("float64")
    nf, nd = len(f), len(th)
    dd = 360.0 / nd
    kind = str(rng.choice(["bins", "bins", "full_turn", "any", "any", "zero"]))
    k = int(rng.integers(-2 * nd, 2 * nd))
    angle = {"bins": k * dd, "full_turn": float(rng.choice([360.0, -360.0, 720.0])), "zero": 0.0}.get(kind, float(rng.uniform(-720, 720)))
    key = "rotate:%s|src=%s|coords=%s|nf=%d|nd=%d|lead=%d" % (kind, stored, cd, nf, nd, len(lnames))
    try:
        r = x.spec.rotate(angle)
    except Exception as e:
        rec.bad("rotate", key, {"raised": repr(e)[:300], "angle": angle, "dir": th}, "rotate-raises")
        return
    det = {"angle": angle, "dir": th, "freq": f}
    if tuple(r.dims) != tuple(x.dims) or not np.array_equal(r.dir.values, x.dir.values) or not np.array_equal(r.freq.values, x.freq.values):
        rec.bad("rotate_coords", key, dict(det, dir_out=r.dir.values, dims_out=r.dims), "rotate-changes-coordinates")
        return
    rec.ok("rotate_coords", key)
    Ein = x.transpose(*lnames, "freq", "dir").values.astype("float64").reshape(-1, nf, nd)
    Eout = r.transpose(*lnames, "freq", "dir").values.astype("float64").reshape(-1, nf, nd)
    order = np.argsort(th)
    inv = np.argsort(order)
    for p in range(Ein.shape[0]):
        ei, eo = Ein[p], Eout[p]
        sc = max(np.abs(ei).max(), 1e-300)
        if np.isnan(eo).any():
            rec.bad("rotate", key, dict(det, position=p, zero_energy_input=not ei.any()), "regrid-nan-on-zero-energy" if not ei.any() else "rotate-nan")
            continue
        if eo.min() < -1e-12 * sc:
            rec.bad("rotate", key, dict(det, position=p, min=float(eo.min())), "rotate-negative-energy")
            continue
        h_in, h_out = hs2(ei, f, dd), hs2(eo, f, dd)
        if h_in > 0 and abs(h_out - h_in) > 2e-9 * T * h_in:
            rec.bad("rotate", key, dict(det, position=p, hs_in=np.sqrt(h_in), hs_out=np.sqrt(h_out)), "rotate-changes-hs")
            continue
        # any angle: relabelled source interpolated linearly on the circle back onto the grid, one factor
        refu = ref_interp(ei, f, (th + angle) % 360.0, None, th)
        h_ref = hs2(refu, f, dd)
        if h_in > 0 and h_ref > 1e-14 * h_in:
            ok, worst = close(eo, refu * (h_in / h_ref), 1e-9 * T, atol=1e-9 * T * sc)
            if not ok:
                rec.bad("rotate", key, dict(det, position=p, worst_over_tol=worst, output=eo, expected=refu * (h_in / h_ref)), "rotate-differs-from-circular-interpolant")
                continue
        if kind in ("bins", "full_turn", "zero"):
            kk = int(round(angle / dd))
            want = np.roll(ei[:, order], kk, axis=1)[:, inv]     # energy at d moves to d + angle
            ok, worst = close(eo, want, 1e-9 * T, atol=1e-9 * T * sc)
            if not ok:
                rec.bad("rotate", key, dict(det, position=p, bins=kk, worst_over_tol=worst, output=eo, expected=want), "rotate-by-whole-bins-is-not-a-circular-shift")
                continue
        rec.ok("rotate", key, sample={"angle": angle, "kind": kind})
