/* Stand-alone driver for the repository's specpart.c (linked unmodified).
 * stdin : int32 ncases; per case int32 nk, nth, ihmax; float32 spec[nk*nth] (freq-major, as
 *         specpart_wrap.c passes it)
 * stdout: per case int32 nk*nth labels in the routine's own order (ifreq + nk*iang)
 * stderr: "case <i>" progress so that a sanitizer abort / hang can be attributed.
 * Buffers are malloc'd at their exact size so AddressSanitizer sees any access outside them. */
#include <stdio.h>
#include <stdlib.h>
#include <stdint.h>
#include "specpart.h"

static void rd(void *p, size_t n) {
  if (fread(p, 1, n, stdin) != n) { fprintf(stderr, "short read\n"); exit(3); }
}

int main(void) {
  int32_t n, hdr[3];
  rd(&n, 4);
  for (int32_t c = 0; c < n; c++) {
    rd(hdr, 12);
    int nk = hdr[0], nth = hdr[1], ihmax = hdr[2];
    size_t ns = (size_t)nk * (size_t)nth;
    float *spec = (float *)malloc(ns * sizeof(float));
    int *ipart = (int *)malloc(ns * sizeof(int));
    rd(spec, ns * sizeof(float));
    for (size_t i = 0; i < ns; i++) ipart[i] = -12345;
    fprintf(stderr, "case %d %d %d %d\n", c, nk, nth, ihmax);
    partition(spec, ipart, nk, nth, ihmax);
    fwrite(ipart, sizeof(int), ns, stdout);
    free(spec);
    free(ipart);
  }
  fflush(stdout);
  fprintf(stderr, "done %d\n", n);
  return 0;
}
