"""MANIFEST.setup_cmd: build everything the checks need from files on disk (offline)."""
import sys

from . import build


def main():
    for kind in ("plain", "asan"):
        print(kind, build.build_ext(kind))
    try:
        print("driver", build.build_driver())
    except FileNotFoundError:
        pass
    return 0


if __name__ == "__main__":
    sys.exit(main())
