"""Event recorder used inside workers: three-valued verdicts, class keys, reach counters."""
import collections
import hashlib
import json
import os
import sys
import time
import traceback

import numpy as np


def jsonable(x, depth=0):
    """Best-effort conversion of numpy/xarray-ish values to JSON-able literals (bounded)."""
    if depth > 6:
        return repr(x)[:200]
    if x is None or isinstance(x, (bool, int, str)):
        return x
    if isinstance(x, float):
        return x if np.isfinite(x) else repr(x)
    if isinstance(x, (np.bool_,)):
        return bool(x)
    if isinstance(x, np.integer):
        return int(x)
    if isinstance(x, np.floating):
        v = float(x)
        return v if np.isfinite(v) else repr(v)
    if isinstance(x, np.ndarray):
        if x.size > 400:
            return {"shape": list(x.shape), "dtype": str(x.dtype),
                    "sha": hashlib.sha1(np.ascontiguousarray(x).tobytes()).hexdigest()[:12],
                    "head": jsonable(x.ravel()[:16].tolist(), depth + 1)}
        return jsonable(x.tolist(), depth + 1)
    if isinstance(x, dict):
        return {str(k): jsonable(v, depth + 1) for k, v in list(x.items())[:200]}
    if isinstance(x, (list, tuple, set, frozenset)):
        return [jsonable(v, depth + 1) for v in list(x)[:400]]
    if hasattr(x, "values") and hasattr(x, "dims"):
        try:
            return {"dims": list(x.dims), "values": jsonable(np.asarray(x.values), depth + 1)}
        except Exception:
            pass
    return repr(x)[:300]


class Rec:
    MAX_VIOL = 40
    MAX_SAMPLES = 3

    def __init__(self, prop, tier, seed, shard, nshards, curfile=None):
        self.prop, self.tier, self.seed, self.shard, self.nshards = prop, tier, seed, shard, nshards
        self.events = collections.Counter()
        self.classes = set()
        self.inconclusive = collections.Counter()
        self.violations = []
        self.nviol = 0
        self.viol_by_mech = collections.Counter()
        self.samples = []
        self.reach = collections.Counter()
        self.notes = collections.Counter()
        self.extra = {}
        self.crash = None
        self.t0 = time.time()
        self.cur = None
        self._curfile = open(curfile, "w") if curfile else None

    # ---- case bookkeeping -------------------------------------------------
    def set_case(self, stream, idx):
        self.cur = (stream, int(idx))
        if self._curfile:
            self._curfile.seek(0)
            self._curfile.write("%s %d\n" % (stream, idx))
            self._curfile.truncate()
            self._curfile.flush()

    def ok(self, op, cls=None, sample=None):
        """The oracle accepted one observed execution of `op` (class key `cls`)."""
        self.events[op] += 1
        if cls is not None:
            self.classes.add("%s|%s" % (op, cls))
        if sample is not None and len(self.samples) < self.MAX_SAMPLES:
            self.samples.append(jsonable({"op": op, "class": cls, "case": self.cur, "observed": sample}))

    def bad(self, op, cls, detail, mech=None):
        """The oracle rejected an observed execution. `mech` is the classifier's mechanism key."""
        self.events[op] += 1
        self.nviol += 1
        self.viol_by_mech[mech or "unclassified:" + op] += 1
        if cls is not None:
            self.classes.add("%s|%s" % (op, cls))
        per = sum(1 for v in self.violations if v["mech"] == mech)
        if len(self.violations) < self.MAX_VIOL and per < 6:
            self.violations.append({
                "op": op, "class": cls, "mech": mech, "case": self.cur,
                "detail": jsonable(detail),
            })

    def skip(self, op, reason):
        """Oracle ill-conditioned / out of statement scope: neither held nor violated."""
        self.inconclusive["%s: %s" % (op, reason)] += 1

    def note(self, key, n=1):
        self.notes[key] += n

    def dump(self, path):
        out = {
            "prop": self.prop, "shard": self.shard,
            "events": dict(self.events), "classes": sorted(self.classes),
            "inconclusive": dict(self.inconclusive), "violations": self.violations,
            "nviol": self.nviol, "viol_by_mech": dict(self.viol_by_mech),
            "samples": self.samples, "reach": dict(self.reach), "notes": dict(self.notes),
            "extra": jsonable(self.extra), "crash": self.crash, "wall_s": time.time() - self.t0,
        }
        tmp = path + ".tmp"
        with open(tmp, "w") as f:
            json.dump(out, f)
        os.replace(tmp, path)


class Ctx:
    """What a check's run(ctx) sees."""

    def __init__(self, rec, prop, tier, seed, shard, nshards, only=None, params=None):
        self.rec, self.prop, self.tier, self.seed = rec, prop, tier, seed
        self.shard, self.nshards, self.only = shard, nshards, only
        self.params = params or {}
        self.propnum = int(prop[1:])

    @property
    def thorough(self):
        return self.tier == "thorough"

    def n(self, quick, thorough):
        return thorough if self.thorough else quick

    def rng(self, stream, idx):
        ss = np.random.SeedSequence([self.propnum, self.seed, abs(hash_str(stream)) % (2**31), int(idx)])
        return np.random.default_rng(ss)

    def cases(self, stream, total):
        """Yield (idx, rng) for the case indices of this shard (or the single replayed one)."""
        if self.only is not None:
            s, i = self.only
            if s == stream:
                self.rec.set_case(stream, i)
                yield i, self.rng(stream, i)
            return
        for i in range(self.shard, total, self.nshards):
            self.rec.set_case(stream, i)
            yield i, self.rng(stream, i)


def hash_str(s):
    return int.from_bytes(hashlib.sha1(s.encode()).digest()[:4], "big")


def guarded(rec, op, fn, *a, **k):
    """Run one case body; an exception inside the *monitor* (not the library) is a crash of
    the check and is recorded as such (never as held)."""
    try:
        return fn(*a, **k)
    except Exception:
        rec.crash = traceback.format_exc()
        raise
