"""known_findings.json lookup. The file is committed and never written at run time."""
import json
import os

from . import VERIF_ROOT

PATH = os.path.join(VERIF_ROOT, "known_findings.json")


def load():
    if not os.path.exists(PATH):
        return {}
    with open(PATH) as f:
        data = json.load(f)
    out = {}
    for e in data.get("findings", []):
        out[(e["property"], e["key"])] = e
    return out


def is_known(table, prop, mech):
    e = table.get((prop, mech))
    return e is not None and e.get("status") == "known"
