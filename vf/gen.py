"""Seeded generators (numpy only; xarray objects are built by make_da/make_ds)."""
import itertools

import numpy as np

SPEC_CLASSES = ["smooth", "smooth", "multimodal", "noise", "single_bin", "single_row", "single_col",
                "dynrange", "plateau", "zeros"]


# ---------------------------------------------------------------------------- grids
def freq_grid(rng, nf=None, family=None, side=None, dtype="float64"):
    """Frequency grid. family in log|linear|irregular; side in below|at|above (f_N vs 0.333)."""
    if nf is None:
        nf = int(rng.choice([1, 2, 3, 4, 5, 8, 12, 17, 25, 32, 40]))
    family = family or str(rng.choice(["log", "linear", "irregular"]))
    side = side or str(rng.choice(["below", "above", "above", "at_lo", "at_hi"]))
    if side == "below":
        fmax = float(rng.uniform(0.12, 0.33))
    elif side == "above":
        fmax = float(rng.uniform(0.34, 1.2))
    elif side == "at_lo":
        # exactly the threshold (no tail) in float64; float32 cannot represent 0.333, so the
        # nearest unambiguous value below it is used there
        fmax = 0.333 if dtype == "float64" else 0.33299
    else:
        fmax = 0.333001 if dtype == "float64" else 0.33301
    if nf == 1:
        f = np.array([fmax])
    else:
        fmin = float(rng.uniform(0.02, 0.08))
        if family == "log":
            f = np.geomspace(fmin, fmax, nf)
        elif family == "linear":
            f = np.linspace(fmin, fmax, nf)
        else:
            w = rng.uniform(0.3, 1.7, nf - 1)
            f = fmin + np.concatenate([[0], np.cumsum(w)]) / w.sum() * (fmax - fmin)
        f[-1] = fmax
    f = f.astype(dtype)
    if nf > 1 and np.any(np.diff(f.astype("float64")) <= 0):
        f = np.linspace(0.04, fmax, nf).astype(dtype)
    return f, {"family": family, "side": side, "nf": nf}


def dir_grid(rng, nd=None, full=None, exact=False):
    """Ascending uniform direction grid. Returns (dirs, true_bin_width, meta).

    full=True: covers the circle (dd = 360/nd) starting anywhere in [0, dd).
    full=False: partial sector with spacing s (nd*s < 360).
    exact=True: spacing and offset exactly representable (whole/dyadic degrees)."""
    if nd is None:
        nd = int(rng.choice([1, 2, 3, 4, 5, 7, 8, 9, 12, 13, 16, 21, 24, 28, 36, 64, 72]))
    if full is None:
        full = bool(rng.random() < 0.8) or nd == 1
    if nd == 1:
        return np.array([float(rng.choice([0.0, 90.0, 271.5]))]), 1.0, {"nd": 1, "full": True, "d0": "single"}
    if full:
        dd = 360.0 / nd
        if exact:
            exact_nd = [2, 3, 4, 5, 6, 8, 9, 10, 12, 15, 16, 18, 20, 24, 30, 32, 36, 40, 45, 48, 60, 64, 72]
            if nd not in exact_nd:
                nd = int(rng.choice(exact_nd))
            dd = 360.0 / nd
            d0 = float(rng.choice([0.0, dd / 2, dd / 4])) if (dd * 4) % 1 == 0 or dd % 1 == 0 else 0.0
        else:
            d0 = float(rng.choice([0.0, dd / 2, rng.uniform(0, dd)]))
        dirs = d0 + dd * np.arange(nd)
        kind = "zero" if d0 == 0 else ("half" if d0 == dd / 2 else "any")
    else:
        s = float(rng.choice([5.0, 10.0, 7.5, 22.5])) if exact else float(rng.uniform(2, 300.0 / nd))
        while s * nd >= 360 - s:
            s /= 2
        d0 = float(np.floor(rng.uniform(0, 360 - s * nd)))
        dirs = d0 + s * np.arange(nd)
        dd = s
        kind = "partial"
    return dirs, dd, {"nd": nd, "full": bool(full), "d0": kind}


# ---------------------------------------------------------------------------- spectra
def _blob(rng, f, th, fp=None, dm=None):
    nf = len(f)
    if fp is None:
        fp = float(rng.choice(f)) if nf < 3 else float(rng.uniform(f[0], f[-1]))
    sig = float(rng.uniform(0.05, 0.5)) * max(fp, 1e-3)
    ef = np.exp(-0.5 * ((f - fp) / sig) ** 2)
    if dm is None:
        dm = float(rng.uniform(0, 360))
    s = float(rng.uniform(1, 30))
    g = np.cos(np.radians(th - dm) / 2) ** 2
    g = g ** s
    return np.outer(ef, g) * float(10 ** rng.uniform(-2, 1))


def spectrum(rng, f, th, cls=None):
    """One non-negative float64 spectrum of class `cls` on (f, th)."""
    nf, nd = len(f), len(th)
    cls = cls or str(rng.choice(SPEC_CLASSES))
    if cls == "smooth":
        E = _blob(rng, f, th)
    elif cls == "multimodal":
        E = sum(_blob(rng, f, th) for _ in range(int(rng.integers(2, 5))))
    elif cls == "noise":
        E = rng.random((nf, nd)) * 10 ** rng.uniform(-3, 1)
    elif cls == "single_bin":
        E = np.zeros((nf, nd))
        E[rng.integers(nf), rng.integers(nd)] = 10 ** rng.uniform(-2, 1)
    elif cls == "single_row":
        E = np.zeros((nf, nd))
        E[rng.integers(nf), :] = rng.random(nd) + 0.01
    elif cls == "single_col":
        E = np.zeros((nf, nd))
        E[:, rng.integers(nd)] = rng.random(nf) + 0.01
    elif cls == "dynrange":
        E = 10 ** rng.uniform(-12, 3, (nf, nd))
    elif cls == "plateau":
        E = rng.integers(0, 4, (nf, nd)).astype(float)
    elif cls == "zeros":
        E = np.zeros((nf, nd))
    elif cls == "constant":
        E = np.full((nf, nd), float(rng.uniform(0.1, 3)))
    else:
        raise ValueError(cls)
    return np.ascontiguousarray(E, dtype="float64"), cls


LEAD_POOL = ["time", "site", "lat", "lon"]


def lead_dims(rng, nlead=None, maxsize=4, allow=("time", "site", "lat", "lon")):
    if nlead is None:
        nlead = int(rng.choice([0, 1, 1, 2, 2, 3]))
    pool = [d for d in allow if d != "site" or True]
    names = list(rng.permutation(pool)[:nlead])
    if "site" in names and ("lat" in names or "lon" in names):
        names = [n for n in names if n != "site"]
    sizes = [int(rng.integers(1, maxsize + 1)) for _ in names]
    return names, sizes


def lead_coords(names, sizes, rng=None, dt_s=3600):
    co = {}
    for n, s in zip(names, sizes):
        if n == "time":
            co[n] = (np.datetime64("2020-01-01T00:00:00") + np.arange(s) * np.timedelta64(int(dt_s), "s")).astype("datetime64[ns]")
        elif n == "site":
            co[n] = np.arange(s)
        elif n == "lat":
            co[n] = -40.0 + 0.5 * np.arange(s)
        elif n == "lon":
            co[n] = 170.0 + 0.5 * np.arange(s)
        elif n == "part":
            co[n] = np.arange(s)
        else:
            co[n] = np.arange(s)
    return co


def make_da(E, f, th, lead_names=(), lead_sizes=(), dtype="float64", order=None, dt_s=3600, name="efth"):
    """DataArray with dims lead... + (freq, dir) (or only freq when th is None)."""
    import xarray as xr

    dims = list(lead_names) + ["freq"] + (["dir"] if th is not None else [])
    coords = lead_coords(lead_names, lead_sizes, dt_s=dt_s)
    coords["freq"] = f
    if th is not None:
        coords["dir"] = th
    E = np.ascontiguousarray(E.astype(dtype))
    if np.dtype(dtype).itemsize < 8:
        E[np.abs(E) < 1e-30] = 0  # keep float32 data clear of the denormal range
    da = xr.DataArray(E, dims=dims, coords=coords, name=name)
    if order is not None:
        da = da.transpose(*order)
    return da


def stack_spectra(rng, f, th, lead_sizes, cls=None, distinct=True):
    """Array of shape lead_sizes + (nf, nd) with an independently drawn spectrum per position."""
    n = int(np.prod(lead_sizes)) if len(lead_sizes) else 1
    out, classes = [], []
    for _ in range(n):
        E, c = spectrum(rng, f, th, cls if not distinct else (cls if rng.random() < 0.5 else None))
        out.append(E)
        classes.append(c)
    A = np.array(out).reshape(tuple(lead_sizes) + (len(f), len(th)))
    return A, classes
