"""pytest plugin: runs the repository's own tests as an extra workload under the C03
post-condition monitor and the C17 purity monitor (thorough tiers).

Loaded with `-p vf.pytest_plugin`, PYTHONPATH=/verif, env VF_SO (extension built from the tree),
VF_PLUGIN_OUT (json results), VF_PLUGIN_MODE in {c03, c17}. A firing here is read before it is
believed: the events carry the test id."""
import functools
import json
import os

from vf import build

_SO = os.environ.get("VF_SO")
if _SO:
    build.install(_SO)

EVENTS = {"ok": {}, "bad": [], "skip": {}, "current": None}


def _ok(op):
    EVENTS["ok"][op] = EVENTS["ok"].get(op, 0) + 1


def _bad(op, detail, mech):
    if len(EVENTS["bad"]) < 40:
        EVENTS["bad"].append({"op": op, "test": EVENTS["current"], "detail": detail, "mech": mech})


def pytest_runtest_setup(item):
    EVENTS["current"] = item.nodeid


def pytest_configure(config):
    import numpy as np
    mode = os.environ.get("VF_PLUGIN_MODE", "c17")
    import wavespectra  # noqa
    if mode == "c03":
        _install_c03(np)
    else:
        _install_c17(np)


def pytest_sessionfinish(session, exitstatus):
    out = os.environ.get("VF_PLUGIN_OUT")
    if out:
        with open(out, "w") as f:
            json.dump({"ok": EVENTS["ok"], "bad": EVENTS["bad"], "skip": EVENTS["skip"]}, f)


# ------------------------------------------------------------------------------------------- C03
def _install_c03(np):
    from wavespectra.partition import specpart, partition as pmod
    from vf.oracle import partrules as R
    import threading
    tls = threading.local()      # the monitor's own state must not be shared between dask worker threads
    orig = specpart.partition

    def rec_partition(spec, ihmax):
        L = orig(spec, ihmax)
        if not hasattr(tls, "calls"):
            tls.calls = []
        tls.calls.append(np.array(L, copy=True))
        return L

    specpart.partition = rec_partition

    def wrap(kind, fn):
        @functools.wraps(fn)
        def w(spectrum, spectrum_smooth, freq, dir, *a, **k):
            tls.calls = []
            out = fn(spectrum, spectrum_smooth, freq, dir, *a, **k)
            calls = tls.calls
            try:
                if len(calls) == 1 and np.asarray(out).ndim == 3:
                    if kind == "ptm3":
                        parts = a[0] if a else k.get("parts", pmod.DEFAULTS["swells"])
                        probs, inc = R.check(kind, spectrum, calls[0], freq, dir, out, parts, hs_rtol=2e-5)
                    else:
                        names = ["wspd", "wdir", "dpt", "agefac", "wscut", "swells", "ihmax"]
                        d = dict(agefac=pmod.DEFAULTS["agefac"], wscut=pmod.DEFAULTS["wscut"], swells=pmod.DEFAULTS["swells"])
                        d.update(dict(zip(names, a)))
                        d.update(k)
                        wind = (float(d["wspd"]), float(d["wdir"]), float(d["dpt"]), float(d["agefac"]), float(d["wscut"]))
                        probs, inc = R.check(kind, spectrum, calls[0], freq, dir, out, d["swells"], wind=wind, hs_rtol=2e-5)
                    if inc:
                        EVENTS["skip"]["repo_tests_" + kind] = EVENTS["skip"].get("repo_tests_" + kind, 0) + 1
                    elif probs:
                        _bad("repo_tests_" + kind, {"problem": probs[0][0], "data": repr(probs[0][1])[:300]}, probs[0][0])
                    else:
                        _ok("repo_tests_" + kind)
            except Exception as e:      # monitor trouble is never a verdict
                EVENTS["skip"]["monitor_error"] = EVENTS["skip"].get("monitor_error", 0) + 1
            return out
        return w

    for kind in ("ptm1", "ptm2", "ptm3"):
        setattr(pmod, "np_" + kind, wrap(kind, getattr(pmod, "np_" + kind)))


# ------------------------------------------------------------------------------------------- C17
def _install_c17(np):
    import inspect
    from vf.monitor import snapshot, diff_snap
    from wavespectra.specarray import SpecArray
    from wavespectra.partition.partition import Partition
    from wavespectra.core import select as selmod
    from wavespectra import specdataset

    def guard(label, objs_of):
        def deco(fn):
            @functools.wraps(fn)
            def w(*a, **k):
                try:
                    objs = objs_of(a, k)
                    before = [(n, snapshot(o)) for n, o in objs]
                except Exception:
                    return fn(*a, **k)
                try:
                    return fn(*a, **k)
                finally:
                    try:
                        ch = [(n, diff_snap(b, snapshot(o))) for (n, b), (_, o) in zip(before, objs)]
                        ch = [(n, d) for n, d in ch if d]
                        if ch:
                            _bad("repo_tests_purity:" + label, {"changed": ch[:3]}, "argument-mutated:" + label)
                        else:
                            _ok("repo_tests_purity:" + label)
                    except Exception:
                        EVENTS["skip"]["monitor_error"] = EVENTS["skip"].get("monitor_error", 0) + 1
            return w
        return deco

    def acc_objs(a, k):
        objs = [("self", a[0]._obj)]
        objs += [("arg%d" % i, v) for i, v in enumerate(a[1:]) if hasattr(v, "dims") or isinstance(v, (list, dict, np.ndarray))]
        objs += [(n, v) for n, v in k.items() if hasattr(v, "dims") or isinstance(v, (list, dict, np.ndarray))]
        return objs

    for name, fn in inspect.getmembers(SpecArray, inspect.isfunction):
        if not name.startswith("_") and name not in ("plot",):
            setattr(SpecArray, name, guard(name, acc_objs)(fn))

    def part_objs(a, k):
        objs = [("self", a[0].dset)]
        objs += [("arg%d" % i, v) for i, v in enumerate(a[1:]) if hasattr(v, "dims") or isinstance(v, (list, dict))]
        objs += [(n, v) for n, v in k.items() if hasattr(v, "dims") or isinstance(v, (list, dict))]
        return objs

    for name, fn in inspect.getmembers(Partition, inspect.isfunction):
        if not name.startswith("_"):
            setattr(Partition, name, guard("partition." + name, part_objs)(fn))

    def sel_objs(a, k):
        d = dict(k)
        names = ["dset", "lons", "lats"]
        d.update(dict(zip(names, a)))
        return [(n, v) for n, v in d.items() if v is not None and (hasattr(v, "dims") or isinstance(v, (list, np.ndarray)))]

    for name in ("sel_nearest", "sel_idw", "sel_bbox"):
        w = guard(name, sel_objs)(getattr(selmod, name))
        setattr(selmod, name, w)
        setattr(specdataset, name, w)
