"""Comparison helpers shared by the oracles."""
import numpy as np

RT64 = 1e-9
RT32 = 2e-5


def rtol_for(*arrays):
    """2e-5 when any participating array is float32 (or narrower), else 1e-9."""
    for a in arrays:
        dt = getattr(a, "dtype", None)
        if dt is not None and np.dtype(dt).kind == "f" and np.dtype(dt).itemsize < 8:
            return RT32
    return RT64


def close(obs, ref, rtol, atol=0.0, scale=None):
    """Elementwise |obs-ref| <= atol + rtol*max(|ref|, scale); NaN/inf must coincide.

    Returns (ok, worst) where worst = max normalised error (1.0 == at tolerance)."""
    obs = np.asarray(obs, dtype="float64")
    ref = np.asarray(ref, dtype="float64")
    try:
        obs, ref = np.broadcast_arrays(obs, ref)
    except ValueError:
        return False, float("inf")
    if obs.shape != ref.shape:
        return False, float("inf")
    nan_o, nan_r = np.isnan(obs), np.isnan(ref)
    if np.any(nan_o != nan_r):
        return False, float("inf")
    inf_o, inf_r = np.isinf(obs), np.isinf(ref)
    if np.any(inf_o != inf_r) or np.any(obs[inf_o] != ref[inf_r]):
        return False, float("inf")
    m = ~(nan_o | inf_o)
    if not m.any():
        return True, 0.0
    sc = np.abs(ref)
    if scale is not None:
        sc = np.maximum(sc, np.broadcast_to(np.asarray(scale, dtype="float64"), ref.shape))
    tol = np.broadcast_to(np.asarray(atol, dtype="float64"), ref.shape) + rtol * sc
    err = np.abs(obs - ref)
    with np.errstate(all="ignore"):
        w = np.where(tol > 0, err / np.where(tol > 0, tol, 1), np.where(err > 0, np.inf, 0.0))
    worst = float(np.max(w[m]))
    return worst <= 1.0, worst


def circ_diff(a, b):
    """Absolute circular difference in degrees."""
    d = np.abs((np.asarray(a, dtype="float64") - np.asarray(b, dtype="float64")) % 360.0)
    return np.minimum(d, 360.0 - d)


def circ_close(obs, ref, atol_deg):
    obs = np.asarray(obs, dtype="float64")
    ref = np.asarray(ref, dtype="float64")
    try:
        obs, ref = np.broadcast_arrays(obs, ref)
    except ValueError:
        return False, float("inf")
    nan_o, nan_r = np.isnan(obs), np.isnan(ref)
    if np.any(nan_o != nan_r):
        return False, float("inf")
    m = ~nan_o
    if not m.any():
        return True, 0.0
    tol = np.broadcast_to(np.asarray(atol_deg, dtype="float64"), ref.shape)
    w = circ_diff(obs, ref)[m] / tol[m]
    return bool(np.all(w <= 1.0)), float(np.max(w))


def vals(x, dims=None):
    """Values of an xarray result (computing dask), transposed to `dims` when given."""
    if hasattr(x, "compute"):
        x = x.compute()
    if dims is not None and hasattr(x, "transpose"):
        x = x.transpose(*dims)
    return np.asarray(getattr(x, "values", x))
