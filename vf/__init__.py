"""Runtime-monitoring framework for wavespectra properties C01-C20 (see DESIGN.md)."""
import os

VERIF_ROOT = os.path.dirname(os.path.dirname(os.path.abspath(__file__)))
PYTHON = "/venv/bin/python"
GUARD = "WAVESPECTRA_VERIF"


def repo_root():
    """Tree under verification: /repo unless VERIF_REPO points at a scratch copy."""
    return os.path.abspath(os.environ.get("VERIF_REPO", "/repo"))
