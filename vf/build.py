"""Build the native watershed from the working tree and route its import.

The .so shipped in <repo>/wavespectra/partition is git-ignored image build output, so
every check compiles specpart.c/specpart_wrap.c itself (plain and ASan+UBSan) and a
MetaPathFinder serves ``wavespectra.partition.specpart`` from that build.
"""
import hashlib
import importlib.abc
import importlib.machinery
import importlib.util
import os
import subprocess
import sys
import sysconfig

from . import VERIF_ROOT, repo_root

SRC = ["specpart.c", "specpart_wrap.c", "specpart.h"]
FLAGS = {
    "plain": ["gcc", "-O2", "-fPIC", "-shared", "-fno-strict-aliasing", "-w"],
    "asan": [
        "clang", "-O1", "-g", "-fPIC", "-shared", "-fno-omit-frame-pointer", "-w",
        "-fsanitize=address,undefined", "-fno-sanitize-recover=all",
        "-shared-libasan",
    ],
}
DRIVER_FLAGS = [
    "clang", "-O1", "-g", "-fno-omit-frame-pointer", "-w",
    "-fsanitize=address,undefined", "-fno-sanitize-recover=all",
]


def _srcdir():
    return os.path.join(repo_root(), "wavespectra", "partition", "specpart")


def _hash(extra=()):
    h = hashlib.sha256()
    for name in SRC:
        with open(os.path.join(_srcdir(), name), "rb") as f:
            h.update(name.encode() + b"\0" + f.read() + b"\0")
    for e in extra:
        h.update(repr(e).encode())
    return h.hexdigest()[:20]


def asan_runtime():
    out = subprocess.run(
        ["clang", "-print-file-name=libclang_rt.asan-x86_64.so"],
        capture_output=True, text=True, check=True,
    ).stdout.strip()
    return out


def build_ext(kind):
    """Return path of the extension built from the working tree (cached by hash)."""
    import numpy

    flags = FLAGS[kind]
    d = os.path.join(VERIF_ROOT, ".build", _hash(flags), kind)
    so = os.path.join(d, "specpart.so")
    if os.path.exists(so):
        return so
    os.makedirs(d, exist_ok=True)
    tmp = so + ".%d.tmp" % os.getpid()
    cmd = flags + [
        "-I" + sysconfig.get_paths()["include"],
        "-I" + numpy.get_include(),
        "-I" + _srcdir(),
        os.path.join(_srcdir(), "specpart_wrap.c"),
        os.path.join(_srcdir(), "specpart.c"),
        "-lm", "-o", tmp,
    ]
    p = subprocess.run(cmd, capture_output=True, text=True)
    if p.returncode != 0:
        raise RuntimeError("build of specpart (%s) failed:\n%s\n%s" % (kind, " ".join(cmd), p.stderr))
    os.replace(tmp, so)
    return so


def build_driver():
    """Stand-alone ASan+UBSan driver linked against the repository's specpart.c."""
    drv = os.path.join(VERIF_ROOT, "vf", "native", "driver.c")
    with open(drv, "rb") as f:
        dh = hashlib.sha256(f.read()).hexdigest()
    d = os.path.join(VERIF_ROOT, ".build", _hash(DRIVER_FLAGS + [dh]), "driver")
    exe = os.path.join(d, "driver")
    if os.path.exists(exe):
        return exe
    os.makedirs(d, exist_ok=True)
    tmp = exe + ".%d.tmp" % os.getpid()
    cmd = DRIVER_FLAGS + ["-I" + _srcdir(), drv, os.path.join(_srcdir(), "specpart.c"), "-lm", "-o", tmp]
    p = subprocess.run(cmd, capture_output=True, text=True)
    if p.returncode != 0:
        raise RuntimeError("build of native driver failed:\n%s" % p.stderr)
    os.replace(tmp, exe)
    return exe


class _SpecpartFinder(importlib.abc.MetaPathFinder):
    NAME = "wavespectra.partition.specpart"

    def __init__(self, so):
        self.so = so

    def find_spec(self, fullname, path, target=None):
        if fullname != self.NAME:
            return None
        loader = importlib.machinery.ExtensionFileLoader(fullname, self.so)
        return importlib.util.spec_from_file_location(fullname, self.so, loader=loader)


def install(so):
    """Put the tree under verification first on sys.path and serve the built extension."""
    root = repo_root()
    if "wavespectra" in sys.modules:
        raise RuntimeError("wavespectra imported before routing was installed")
    sys.path.insert(0, root)
    sys.meta_path.insert(0, _SpecpartFinder(so))


def verify_routing(so):
    import wavespectra
    from wavespectra.partition import specpart

    root = repo_root()
    assert os.path.abspath(wavespectra.__file__).startswith(root + os.sep), wavespectra.__file__
    assert os.path.abspath(specpart.__file__) == os.path.abspath(so), specpart.__file__
