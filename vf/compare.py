"""Label-aligned comparison of two xarray results (metamorphic / differential oracles)."""
import numpy as np

from .cmp import close, circ_close


def _to_items(r):
    """Flatten a result into [(name, DataArray-or-ndarray)]."""
    import xarray as xr

    if isinstance(r, xr.Dataset):
        return [(str(k), r[k]) for k in r.data_vars]
    if isinstance(r, (tuple, list)):
        out = []
        for i, x in enumerate(r):
            out += [("%d.%s" % (i, n), v) for n, v in _to_items(x)]
        return out
    return [("", r)]


def align_to(b, a):
    """Re-express DataArray b on a's dimension order and coordinate order (by labels)."""
    import xarray as xr

    if not isinstance(a, xr.DataArray) or not isinstance(b, xr.DataArray):
        return b
    if set(a.dims) != set(b.dims):
        raise ValueError("dims differ: %s vs %s" % (a.dims, b.dims))
    b = b.transpose(*a.dims)
    for d in a.dims:
        if d in a.coords and d in b.coords:
            av, bv = a[d].values, b[d].values
            if av.shape != bv.shape:
                raise ValueError("size of %s differs: %s vs %s" % (d, av.shape, bv.shape))
            if not np.array_equal(av, bv):
                if av.dtype.kind == "f":
                    # match labels numerically (float32/float64 renderings of the same label)
                    idx = [int(np.argmin(np.abs(bv.astype("float64") - float(v)))) for v in av]
                    if sorted(idx) != list(range(len(idx))) or np.max(np.abs(bv[idx].astype("float64") - av.astype("float64"))) > 1e-4:
                        raise ValueError("coordinate %s differs: %s vs %s" % (d, av[:6], bv[:6]))
                    b = b.isel({d: idx})
                else:
                    b = b.sel({d: a[d]})
    return b


def compare(ra, rb, rtol, circ=False, atol=0.0, circ_atol=1e-6, exact=False):
    """Returns (ok, detail). ra is the reference execution, rb the transformed one."""
    ia, ib = _to_items(ra), _to_items(rb)
    if [n for n, _ in ia] != [n for n, _ in ib]:
        return False, {"reason": "different result structure", "a": [n for n, _ in ia], "b": [n for n, _ in ib]}
    for (n, a), (_, b) in zip(ia, ib):
        try:
            b2 = align_to(b, a)
        except (ValueError, KeyError) as e:
            return False, {"reason": "cannot align by labels", "item": n, "error": repr(e)[:300]}
        av = np.asarray(a.compute().values if hasattr(a, "compute") else a)
        bv = np.asarray(b2.compute().values if hasattr(b2, "compute") else b2)
        if av.shape != bv.shape:
            return False, {"reason": "shape", "item": n, "a": av.shape, "b": bv.shape}
        if av.dtype.kind not in "fiub" or bv.dtype.kind not in "fiub":
            if not np.array_equal(av, bv):
                return False, {"reason": "non-numeric values differ", "item": n}
            continue
        if exact:
            same = (av == bv) | (np.isnan(av.astype("float64")) & np.isnan(bv.astype("float64")))
            if not same.all():
                i = tuple(np.argwhere(~same)[0])
                return False, {"reason": "not identical", "item": n, "index": i, "a": float(av[i]), "b": float(bv[i])}
        elif circ:
            ok, worst = circ_close(bv, av, circ_atol)
            if not ok:
                return False, {"reason": "directions differ", "item": n, "worst_over_tol": worst, "a": av, "b": bv}
        else:
            sc = np.nanmax(np.abs(av)) if av.size and np.isfinite(av.astype("float64")).any() else 0.0
            ok, worst = close(bv, av, rtol, atol=atol + rtol * 1e-3 * sc)
            if not ok:
                return False, {"reason": "values differ", "item": n, "worst_over_tol": worst, "a": av, "b": bv}
    return True, None


def parts_multiset(r, lead_first=("part",)):
    """For a partition result (part, ..., freq, dir): per position, multiset of partition arrays."""
    raise NotImplementedError
