"""Label-aligned comparison of two xarray results (metamorphic / differential oracles)."""
import numpy as np

from .cmp import close, circ_close


def _to_items(r):
    """Flatten a result into [(name, DataArray-or-ndarray)]."""
    import xarray as xr

    if isinstance(r, xr.Dataset):
        return [(str(k), r[k]) for k in r.data_vars]
    if isinstance(r, (tuple, list)):
        out = []
        for i, x in enumerate(r):
            out += [("%d.%s" % (i, n), v) for n, v in _to_items(x)]
        return out
    return [("", r)]


def align_to(b, a):
    """Re-express DataArray b on a's dimension order and coordinate order (by labels)."""
    import xarray as xr

    if not isinstance(a, xr.DataArray) or not isinstance(b, xr.DataArray):
        return b
    if set(a.dims) != set(b.dims):
        raise ValueError("dims differ: %s vs %s" % (a.dims, b.dims))
    b = b.transpose(*a.dims)
    for d in a.dims:
        if d in a.coords and d in b.coords:
            av, bv = a[d].values, b[d].values
            if av.shape != bv.shape:
                raise ValueError("size of %s differs: %s vs %s" % (d, av.shape, bv.shape))
            if not np.array_equal(av, bv):
                if av.dtype.kind == "f":
                    # match labels numerically (float32/float64 renderings of the same label)
                    idx = [int(np.argmin(np.abs(bv.astype("float64") - float(v)))) for v in av]
                    if sorted(idx) != list(range(len(idx))) or np.max(np.abs(bv[idx].astype("float64") - av.astype("float64"))) > 1e-4:
                        raise ValueError("coordinate %s differs: %s vs %s" % (d, av[:6], bv[:6]))
                    b = b.isel({d: idx})
                else:
                    b = b.sel({d: a[d]})
    return b


def compare(ra, rb, rtol, circ=False, atol=0.0, circ_atol=1e-6, exact=False):
    """Returns (ok, detail). ra is the reference execution, rb the transformed one."""
    ia, ib = _to_items(ra), _to_items(rb)
    if [n for n, _ in ia] != [n for n, _ in ib]:
        return False, {"reason": "different result structure", "a": [n for n, _ in ia], "b": [n for n, _ in ib]}
    for (n, a), (_, b) in zip(ia, ib):
        try:
            b2 = align_to(b, a)
        except (ValueError, KeyError) as e:
            return False, {"reason": "cannot align by labels", "item": n, "error": repr(e)[:300]}
        av = np.asarray(a.compute().values if hasattr(a, "compute") else a)
        bv = np.asarray(b2.compute().values if hasattr(b2, "compute") else b2)
        if av.shape != bv.shape:
            return False, {"reason": "shape", "item": n, "a": av.shape, "b": bv.shape}
        if av.dtype.kind not in "fiub" or bv.dtype.kind not in "fiub":
            if not np.array_equal(av, bv):
                return False, {"reason": "non-numeric values differ", "item": n}
            continue
        if exact:
            same = (av == bv) | (np.isnan(av.astype("float64")) & np.isnan(bv.astype("float64")))
            if not same.all():
                i = tuple(np.argwhere(~same)[0])
                return False, {"reason": "not identical", "item": n, "index": i, "a": float(av[i]), "b": float(bv[i])}
        elif circ:
            ok, worst = circ_close(bv, av, circ_atol)
            if not ok:
                return False, {"reason": "directions differ", "item": n, "worst_over_tol": worst, "a": av, "b": bv}
        else:
            sc = np.nanmax(np.abs(av)) if av.size and np.isfinite(av.astype("float64")).any() else 0.0
            at = atol
            if hasattr(atol, "dims"):
                # per-position absolute tolerance (signed sums: rounding scales with the unsigned total)
                at = np.abs(np.asarray(align_to(atol, a).values, dtype="float64")) if atol.dims else abs(float(atol))
            ok, worst = close(bv, av, rtol, atol=at + rtol * 1e-3 * sc)
            if not ok:
                return False, {"reason": "values differ", "item": n, "worst_over_tol": worst, "a": av, "b": bv}
    return True, None


CANCEL = {"dspr": 1.0, "dpspr": 1.0, "dpspr_mom2": 1.0, "swe": 0.02, "sw": 0.02, "gw": None}


def cancel_rtol(name, v, f32):
    """Relative tolerance for sqrt(small difference) quantities from the size of the difference:
    v = sqrt(c*q) with q = 1 - r (spreads, in degrees) or a moment ratio minus one (widths); an
    error eps in r becomes eps/(2q) relative in v."""
    eps = 4e-7 if f32 else 1e-12
    v = np.asarray(v, dtype="float64")
    q = (np.radians(v) ** 2) / 2.0 if name in ("dspr", "dpspr", "dpspr_mom2") else v ** 2
    return 4.0 * eps / np.maximum(q, 1e-12) + 8.0 * eps


def compare_cancel(ra, rb, f32, name, rt=None):
    """Quantities of the form sqrt(small difference): decided only where the value is well above
    the rounding floor; returns (None, None) when nothing is decidable."""
    rb = align_to(rb, ra)
    a = np.asarray(ra.compute().values if hasattr(ra, "compute") else ra, dtype="float64")
    b = np.asarray(rb.compute().values if hasattr(rb, "compute") else rb, dtype="float64")
    if a.shape != b.shape:
        return False, {"reason": "shape", "a": a.shape, "b": b.shape}
    if name == "gw":
        floor = 0.05 * np.nanmax(np.abs(a)) if np.isfinite(a).any() else np.inf
    else:
        floor = CANCEL[name] * (1.0 if f32 else 0.05)
    m = np.isfinite(a) & np.isfinite(b) & (a > floor) & (b > floor)
    if not m.any():
        return None, None
    rt = rt or cancel_rtol(name, a[m], f32)
    bad = np.abs(a[m] - b[m]) > rt * np.abs(a[m])
    if bad.any():
        return False, {"reason": "values differ", "a": a, "b": b}
    return True, None


def compare_parts(ra, rb, nfixed):
    """Watershed results: wind-sea slots in place, remaining partitions as a multiset per position."""
    try:
        rb = align_to(rb, ra)
    except (ValueError, KeyError) as e:
        return False, {"reason": "cannot align by labels", "error": repr(e)[:300]}
    a = np.asarray(ra.transpose("part", ..., "freq", "dir").values)
    b = np.asarray(rb.transpose("part", ..., "freq", "dir").values)
    if a.shape != b.shape:
        return False, {"reason": "shape", "a": a.shape, "b": b.shape}
    P_ = a.shape[0]
    a = a.reshape(P_, -1, a.shape[-2] * a.shape[-1])
    b = b.reshape(P_, -1, b.shape[-2] * b.shape[-1])
    for pos in range(a.shape[1]):
        for k in range(nfixed):
            if not np.array_equal(a[k, pos], b[k, pos]):
                return False, {"reason": "wind-sea partition differs", "part": k, "position": pos}
        sa = sorted(a[k, pos].tobytes() for k in range(nfixed, P_))
        sb = sorted(b[k, pos].tobytes() for k in range(nfixed, P_))
        if sa != sb:
            # which partitions are kept when fewer are requested than detected is decided by their significant height:
            # an exact tie between the ones that differ leaves the choice undefined (either may be dropped)
            ua = [a[k, pos] for k in range(nfixed, P_) if a[k, pos].tobytes() not in set(sb)]
            ub = [b[k, pos] for k in range(nfixed, P_) if b[k, pos].tobytes() not in set(sa)]
            if ua and len(ua) == len(ub):
                fq = np.asarray(ra["freq"].values, dtype="float64")
                nd_ = a.shape[-1] // len(fq)

                def m0_(v):
                    e = np.asarray(v, dtype="float64").reshape(len(fq), nd_).sum(1)
                    return float(np.sum(0.5 * np.diff(fq) * (e[1:] + e[:-1]))) if len(fq) > 1 else float(e.sum())
                ha, hb = sorted(m0_(v) for v in ua), sorted(m0_(v) for v in ub)
                if all(abs(x_ - y_) <= 1e-9 * max(abs(x_), abs(y_), 1e-300) for x_, y_ in zip(ha, hb)):
                    return None, None
            return False, {"reason": "set of swell partitions differs", "position": pos,
                           "nonzero_bins_a": [int((a[k, pos] != 0).sum()) for k in range(P_)],
                           "nonzero_bins_b": [int((b[k, pos] != 0).sum()) for k in range(P_)]}
    return True, None


SIGNED = {"uss_x": "uss", "uss_y": "uss"}


def signed_scale(op, x, aux=None):
    """For a signed directional sum, the unsigned total whose size bounds its rounding error (else None)."""
    if op.name not in SIGNED:
        return None
    r = getattr(x.spec, SIGNED[op.name])()
    return r.compute() if hasattr(r, "compute") else r


def compare_op(op, ra, rb, f32, rtol=None, circ_atol=None, multiset=True, scale=None):
    """Compare two results of the same operation. Returns (ok | None, detail); None = inconclusive.
    scale: DataArray from signed_scale(); the values may differ by rtol*32*scale in absolute terms."""
    name = op.name
    if scale is not None:
        rt_ = rtol if rtol is not None else (2e-5 if f32 else 1e-9)
        return compare(ra, rb, rt_, atol=scale * (32.0 * rt_))
    if op.watershed and multiset:
        return compare_parts(ra, rb, 1 if name in ("ptm1", "hp01") else (2 if name == "ptm2" else 0))
    if name in CANCEL:
        return compare_cancel(ra, rb, f32, name)
    rtol = rtol if rtol is not None else (2e-5 if f32 else 1e-9)
    if name in ("alpha", "gamma"):
        # float32 tail fits around a float32 peak frequency: summation order (layout, batching, chunking) shows at ~1e-5
        rtol = max(rtol, 2e-4)
    return compare(ra, rb, rtol, circ=op.circ, circ_atol=circ_atol if circ_atol is not None else (0.05 if f32 else 1e-6))
