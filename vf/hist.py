"""History steps and observed operations for C18 (shared by the worker and the zygote)."""
import numpy as np


def state_of(obj):
    """Plain-data description of the *current contents* of a DataArray / Dataset."""
    import xarray as xr

    def var(v):
        return {"dims": tuple(v.dims), "values": np.array(v.values, copy=True), "attrs": dict(v.attrs)}

    if isinstance(obj, xr.DataArray):
        return {"type": "da", "name": obj.name, "var": var(obj.variable), "attrs": dict(obj.attrs),
                "coords": {k: var(c.variable) for k, c in obj.coords.items()}}
    return {"type": "ds", "attrs": dict(obj.attrs), "vars": {k: var(v.variable) for k, v in obj.data_vars.items()},
            "coords": {k: var(c.variable) for k, c in obj.coords.items()}}


def rebuild(st):
    """A freshly constructed object with the same contents (no cached accessors)."""
    import xarray as xr

    coords = {k: (c["dims"], c["values"].copy(), dict(c["attrs"])) for k, c in st["coords"].items()}
    if st["type"] == "da":
        v = st["var"]
        return xr.DataArray(v["values"].copy(), dims=v["dims"], coords=coords, attrs=dict(st["attrs"]), name=st["name"])
    dv = {k: (v["dims"], v["values"].copy(), dict(v["attrs"])) for k, v in st["vars"].items()}
    return xr.Dataset(dv, coords=coords, attrs=dict(st["attrs"]))


OBSERVED = ["ptm1", "ptm2", "ptm1", "ptm2", "dpspr_zero", "hs", "hrms", "tm01", "tm02", "dm", "dspr", "dp", "dpm", "tp", "oned", "momf", "uss", "crsd",
            "stats", "stats_limits", "stats_limits", "smooth", "interp", "rotate", "ptm3", "ptm4", "to_energy", "swe", "hmax", "split", "reconstruct",
            "ptm3", "to_swan", "to_octopus", "to_json", "to_ww3", "to_netcdf"]


def observe(obj, obs):
    """Run one observed operation on obj (Dataset -> Dataset accessor, DataArray -> its accessor)."""
    import xarray as xr

    name, kw = obs["name"], obs.get("kw", {})
    acc = obj.spec
    if name == "stats":
        r = acc.stats(kw["stats"])
    elif name == "smooth":
        r = acc.smooth(3, 3)
    elif name == "interp":
        r = acc.interp(freq=np.asarray(kw["freq"]), dir=np.asarray(kw["dir"]))
    elif name == "rotate":
        r = acc.rotate(kw["angle"])
    elif name == "momf":
        r = acc.momf(kw["n"])
    elif name == "split":
        r = acc.split(fmin=kw["fmin"], fmax=kw["fmax"])
    elif name == "reconstruct":
        # partition_and_reconstruct with its default arguments (jonswap shapes fitted to each partition)
        from wavespectra.construct import partition_and_reconstruct
        da = obj["efth"] if isinstance(obj, xr.Dataset) else obj
        ds_ = da.to_dataset(name="efth")
        lead_ = [d for d in da.dims if d not in ("freq", "dir")]
        shp_ = [da.sizes[d] for d in lead_]
        for k_, v_ in (("wspd", 8.0), ("wdir", 200.0), ("dpt", 50.0)):
            ds_[k_] = (tuple(lead_), np.full(shp_, v_))
        r = partition_and_reconstruct(ds_, parts=2)
    elif name == "stats_limits":
        r = acc.stats(["hs", "tm01", "dm"], **kw)
    elif name in ("to_swan", "to_octopus", "to_json"):
        # the result of a writer is the file: its bytes (objects without a time axis are refused by some writers -
        # then both processes must refuse alike)
        import os
        import shutil
        import tempfile
        ds_ = obj if isinstance(obj, xr.Dataset) else obj.to_dataset(name="efth")
        d_ = tempfile.mkdtemp(prefix="vf-c18-")
        try:
            p_ = os.path.join(d_, "out")
            getattr(ds_.spec, name)(p_)
            with open(p_, "rb") as fh_:
                raw_ = fh_.read()
            if name == "to_json":
                # the document, not its spelling: the order of the keys of a JSON object carries no meaning (xarray lists
                # the dimensions in the order the object happened to acquire them)
                import json
                raw_ = json.dumps(json.loads(raw_.decode()), sort_keys=True).encode()
            r = xr.DataArray(np.frombuffer(raw_, dtype=np.uint8).copy(), dims=["byte"])
        finally:
            shutil.rmtree(d_, ignore_errors=True)
    elif name in ("to_ww3", "to_netcdf"):
        # NetCDF writers: the result is what the file holds (variables, values, attributes), read back with plain xarray
        import os
        import shutil
        import tempfile
        ds_ = obj if isinstance(obj, xr.Dataset) else obj.to_dataset(name="efth")
        d_ = tempfile.mkdtemp(prefix="vf-c18-")
        try:
            p_ = os.path.join(d_, "out.nc")
            if name == "to_ww3":
                ds_.spec.to_ww3(p_)
            else:
                ds_.spec.to_netcdf(p_, ncformat="NETCDF3_64BIT", compress=False, packed=False)
            with xr.open_dataset(p_, decode_times=False) as fh_:
                r = fh_.load()
        finally:
            shutil.rmtree(d_, ignore_errors=True)
    elif name in ("ptm1", "ptm2"):
        da = obj["efth"] if isinstance(obj, xr.Dataset) else obj
        r = getattr(da.spec.partition, name)(xr.DataArray(14.0), xr.DataArray(200.0), xr.DataArray(30.0), swells=2)
    elif name == "dpspr_zero":
        # an operation that merely emits a RuntimeWarning (0/0 on an all-zero spectrum): it must
        # return the same thing whatever ran before (process-global warning filters)
        da = obj["efth"] if isinstance(obj, xr.Dataset) else obj
        z = xr.concat([da, da * 0.0], dim="zz")
        r = z.spec.dpspr()
    elif name in ("ptm3", "ptm4"):
        da = obj["efth"] if isinstance(obj, xr.Dataset) else obj
        if name == "ptm3":
            r = da.spec.partition.ptm3(parts=kw["parts"], ihmax=kw.get("ihmax", 100))
        else:
            r = da.spec.partition.ptm4(xr.DataArray(kw["wspd"]), xr.DataArray(kw["wdir"]), xr.DataArray(kw["dpt"]))
    else:
        r = getattr(acc, name)()
    if hasattr(r, "compute"):
        r = r.compute()
    return r
