"""Set-theoretic model of the watershed output (C04). No re-implementation of immersion.

Grid: bins (i, j), i = frequency index 0..nk-1, j = direction index 0..nth-1, 8-adjacency with
the direction axis circular."""
import numpy as np

_NB_CACHE = {}


def neighbours(nk, nth):
    key = (nk, nth)
    nb = _NB_CACHE.get(key)
    if nb is None:
        nb = []
        for i in range(nk):
            for j in range(nth):
                s = set()
                for di in (-1, 0, 1):
                    ii = i + di
                    if ii < 0 or ii >= nk:
                        continue
                    for dj in (-1, 0, 1):
                        jj = (j + dj) % nth
                        if (ii, jj) != (i, j):
                            s.add(ii * nth + jj)
                nb.append(sorted(s))
        if len(_NB_CACHE) > 400:
            _NB_CACHE.clear()
        _NB_CACHE[key] = nb
    return nb


def levels(spec32, ihmax):
    """Discretised levels as the routine documents them, and a tie flag.

    Returns (levels or None when the spectrum is constant, near_tie)."""
    z = np.asarray(spec32, dtype=np.float32).astype(np.float64)
    zmin, zmax = z.min(), z.max()
    if zmax - zmin < 1e-9:
        return None, False
    zp = (zmax - z).astype(np.float32).astype(np.float64)   # stored back in a float buffer
    fact = (ihmax - 1.0) / (zmax - zmin)
    x = zp * fact
    frac = x - np.floor(x)
    near = bool(np.any(np.abs(frac - 0.5) < 1e-6))
    lv = np.floor(x + 0.5)                                  # round half away from zero (x >= 0)
    lv = np.clip(lv, 0, ihmax - 1).astype(np.int64)
    return lv, near


def components(mask_flat, nb):
    """Connected components of the bins where mask_flat is True. Returns list of lists."""
    seen = np.zeros(mask_flat.size, dtype=bool)
    out = []
    for s in np.flatnonzero(mask_flat):
        if seen[s]:
            continue
        comp, stack = [], [s]
        seen[s] = True
        while stack:
            p = stack.pop()
            comp.append(p)
            for q in nb[p]:
                if mask_flat[q] and not seen[q]:
                    seen[q] = True
                    stack.append(q)
        out.append(comp)
    return out


def regional_minima(lv):
    """Plateaus (connected sets of equal level) without a strictly lower neighbour."""
    nk, nth = lv.shape
    nb = neighbours(nk, nth)
    flat = lv.ravel()
    seen = np.zeros(flat.size, dtype=bool)
    minima = []
    for s in range(flat.size):
        if seen[s]:
            continue
        comp, stack, lower = [], [s], False
        seen[s] = True
        v = flat[s]
        while stack:
            p = stack.pop()
            comp.append(p)
            for q in nb[p]:
                if flat[q] == v:
                    if not seen[q]:
                        seen[q] = True
                        stack.append(q)
                elif flat[q] < v:
                    lower = True
        if not lower:
            minima.append(comp)
    return minima


def check_map(lv, labels):
    """Structural invariants (i)-(iv). Returns None when they hold, else a short reason + data."""
    nk, nth = lv.shape
    L = np.asarray(labels)
    if L.shape != lv.shape:
        return "shape", {"labels_shape": L.shape}
    if L.min() < 1:
        return "unlabelled-bin", {"min_label": int(L.min()), "count": int((L < 1).sum())}
    nb = neighbours(nk, nth)
    minima = regional_minima(lv)
    labs = np.unique(L)
    if len(labs) != len(minima):
        return "label-count", {"labels": int(len(labs)), "regional_minima": int(len(minima))}
    if labs[0] != 1 or labs[-1] != len(labs):
        return "labels-not-1..n", {"labels": labs.tolist()[:20]}
    flat = L.ravel()
    owner = {}
    for m in minima:
        ls = set(int(flat[p]) for p in m)
        if len(ls) != 1:
            return "minimum-split-between-labels", {"labels": sorted(ls)}
        l = ls.pop()
        if l in owner:
            return "two-minima-in-one-label", {"label": l}
        owner[l] = True
    for l in labs:
        comps = components(flat == l, nb)
        if len(comps) != 1:
            return "label-not-connected", {"label": int(l), "components": len(comps)}
    return None


def as_sets(labels):
    """Partition as a frozenset of frozensets of (i, j)."""
    L = np.asarray(labels)
    out = {}
    for (i, j), l in np.ndenumerate(L):
        out.setdefault(int(l), set()).add((i, j))
    return frozenset(frozenset(s) for s in out.values())


def shift_sets(sets, k, nth):
    return frozenset(frozenset((i, (j + k) % nth) for (i, j) in s) for s in sets)
