"""Independent reference encoders of instrument / model text formats (C13).

Written from the format layouts (sample headers, vendor notes), never from the readers under
test. Every encoder formats its numbers to text first and keeps *the parsed text* as the truth,
so comparisons are at the precision the file itself carries. numpy + stdlib (+ scipy.io.savemat
for XWaves); no wavespectra import."""
import gzip
import json
import os

import numpy as np

E2V = 1025 * 9.81


def _t0(rng):
    return np.datetime64("2021-01-01T00:00:00") + np.timedelta64(int(rng.integers(0, 3 * 365 * 24)) * 3600, "s")


def _parse(fmt, a):
    a = np.asarray(a, dtype="float64")
    txt = np.array([fmt % v for v in a.ravel()])
    return txt.reshape(a.shape), np.array([float(s) for s in txt]).reshape(a.shape)


def lobes(rng, f, th, n=None):
    E = np.zeros((len(f), len(th)))
    for _ in range(n or int(rng.integers(1, 3))):
        fp = float(rng.uniform(f[0], f[-1]))
        dm = float(rng.uniform(0, 360))
        E += float(10 ** rng.uniform(-3, 1)) * np.outer(np.exp(-0.5 * ((f - fp) / (0.25 * fp + 1e-9)) ** 2),
                                                         (np.cos(np.radians(th - dm) / 2) ** 2) ** float(rng.uniform(1, 15)))
    return E


# --------------------------------------------------------------------------------------- TRIAXYS
def triaxys(rng, d, directional=True, nfiles=1):
    f0 = float(rng.choice([0.0, 0.03, 0.05]))
    df = float(rng.choice([0.005, 0.01, 0.0125, 0.02]))
    nf = int(rng.integers(6, 70))
    ddir = int(rng.choice([3, 5, 10, 15, 30]))
    f = f0 + df * np.arange(nf)
    th = np.arange(0, 360 + ddir, ddir, dtype=float)
    t0 = _t0(rng)
    paths, times, specs = [], [], []
    fgrid = f
    vary_f0 = nfiles > 1 and rng.random() < 0.35
    for k in range(nfiles):
        t = t0 + np.timedelta64(k * 1800, "s")
        ts = str(t.astype("datetime64[m]")).replace("T", " ")
        if vary_f0 and k > 0:
            # a later file whose band starts elsewhere (same number of bins and spacing): the reader puts every record on
            # the first file's frequencies by linear interpolation, zero outside the file's own band
            f0 = float(rng.choice([0.0, 0.03, 0.05, 0.04]))
            f = f0 + df * np.arange(nf)
        if directional:
            E = lobes(rng, f, th)
            E[:, -1] = E[:, 0]
            txt, val = _parse("%12.5E", E)
            lines = ["TRIAXYS BUOY DATA REPORT - TAS01970 - TAB01401 - 4857.6668S16631.6837W", "VERSION = WV (NDS)",
                     "TYPE\t= DIRECTIONAL SPECTRUM", "DATE    = %s(UTC)" % ts,
                     "NUMBER OF FREQUENCIES              =   %4d" % nf, "NUMBER OF RESOLVABLE FREQUENCIES   =   %4d" % max(nf - 8, 1),
                     "INITIAL FREQUENCY (Hz)             =   %.4f" % f0, "FREQUENCY SPACING (Hz)             =   %.4f" % df,
                     "RESOLVABLE FREQUENCY RANGE (Hz)    =   %.3f  TO  %.3f" % (f[min(3, nf - 1)], f[-1]),
                     "NUMBER OF DIRECTIONS               =   %4d" % len(th), "DIRECTION SPACING (DEG)            =   %4d" % ddir,
                     "COLUMNS = 0.00 TO 360.00 DEG", "ROWS\t= %.2f TO %6.2f Hz" % (f[0], f[-1])]
            lines += [" ".join(r) for r in txt]
            ext = "DIRSPEC"
        else:
            e1 = lobes(rng, f, np.array([0.0]))[:, 0]
            txt, val = _parse("%14.7E", e1)
            lines = ["TRIAXYS BUOY DATA REPORT - TAS01970 - TAB01401 - 4857.6668S16631.6837W", "VERSION = WV",
                     "TYPE    = NON-DIRECTIONAL SPECTRUM", "DATE    = %s(UTC)" % ts,
                     "NUMBER OF FREQUENCIES              =   %d" % nf, "INITIAL FREQUENCY (Hz)             =   %.4f" % f0,
                     "FREQUENCY SPACING (Hz)             =   %.4f" % df, "COLUMN 1 = FREQUENCY (Hz)", "COLUMN 2 = SPECTRAL DENSITY (M^2/Hz)"]
            lines += ["%.4f %s" % (ff, s) for ff, s in zip(f, txt)]
            ext = "NONDIRSPEC"
        p = os.path.join(d, "%s.%s" % (str(t.astype("datetime64[m]")).replace(":", "").replace("-", ""), ext))
        with open(p, "w") as fh:
            fh.write("\n".join(lines) + "\n")
        paths.append(p)
        times.append(t.astype("datetime64[m]"))
        if f is not fgrid and not np.array_equal(f, fgrid):
            v2 = np.asarray(val, dtype="float64")
            val = np.array([np.interp(fgrid, f, col, left=0.0, right=0.0) for col in v2.reshape(nf, -1).T]).T.reshape((nf,) + v2.shape[1:])
        specs.append(val)
    return paths, {"time": np.array(times), "freq": fgrid, "dir": th if directional else None, "E": np.array(specs), "vary_f0": bool(vary_f0)}


# --------------------------------------------------------------------------------------- NDBC ASCII
def ndbc(rng, d, style="realtime", directional=True, minutes=True):
    nt, nf = int(rng.integers(1, 9)), int(rng.integers(3, 41))
    f = np.round(0.02 + 0.0125 * np.arange(nf) + rng.uniform(0, 0.001), 4)
    t0 = _t0(rng)
    times = np.array([t0 + np.timedelta64(int(k) * 3600 + (int(rng.integers(0, 6)) * 600 if minutes else 0), "s") for k in rng.permutation(nt)])
    c11 = 10 ** rng.uniform(-3, 1.5, (nt, nf))
    if rng.random() < 0.35:
        # storm-size and round densities that print as runs of nines (99.00, 9.99, 0.99): ordinary values, not NDBC's 999.00 flag
        for _ in range(int(rng.integers(1, 4))):
            c11[rng.integers(nt), rng.integers(nf)] = float(rng.choice([99.0, 9.99, 0.99, 99.99, 90.0]))
    a1, a2 = rng.uniform(0, 360, (nt, nf)), rng.uniform(0, 360, (nt, nf))
    r1, r2 = rng.uniform(0, 0.95, (nt, nf)), rng.uniform(0, 0.6, (nt, nf))
    if rng.random() < 0.35:
        a1[rng.integers(nt), rng.integers(nf)] = 99.0
        a2[rng.integers(nt), rng.integers(nf)] = 0.0
        r1[rng.integers(nt), rng.integers(nf)] = 0.0
        r2[rng.integers(nt), rng.integers(nf)] = 0.0
    fields = {"spec": ("%.3f" if style == "realtime" else "%.2f", c11), "swdir": ("%.1f", a1), "swdir2": ("%.1f", a2), "swr1": ("%.2f", r1), "swr2": ("%.2f", r2)}
    truth = {"time": times.astype("datetime64[m]" if minutes else "datetime64[h]"), "freq": f}
    paths = []
    for name, (fmt, arr) in fields.items():
        if not directional and name != "spec":
            continue
        txt, val = _parse(fmt, arr)
        truth[name] = val
        lines = []
        if style == "realtime":
            tag = {"spec": "spec", "swdir": "alpha1", "swdir2": "alpha2", "swr1": "r1", "swr2": "r2"}[name]
            head = "#YY  MM DD hh mm " + ("Sep_Freq  < " if name == "spec" else "") + " ".join("%s_%d (freq_%d)" % (tag, i + 1, i + 1) for i in range(3)) + " ... >"
            lines.append(head)
            for k, t in enumerate(times):
                y = str(t.astype("datetime64[m]"))
                row = "%s %s %s %s %s " % (y[0:4], y[5:7], y[8:10], y[11:13], y[14:16])
                if name == "spec":
                    row += "%.3f " % float(rng.uniform(0.1, 0.3))
                row += " ".join("%s (%.4f)" % (txt[k, i], f[i]) for i in range(nf))
                lines.append(row)
        else:
            hd = ("#YY  MM DD hh mm " if minutes else "#YY  MM DD hh ") + " ".join("%7.4f" % ff for ff in f)
            lines.append(hd)
            for k, t in enumerate(times):
                y = str(t.astype("datetime64[m]"))
                row = "%s %s %s %s " % (y[0:4], y[5:7], y[8:10], y[11:13]) + ("%s " % y[14:16] if minutes else "")
                row += " ".join("%7s" % s for s in txt[k])
                lines.append(row)
        p = os.path.join(d, "41010.%s" % name if style == "realtime" else "41010%s2019.txt" % {"spec": "w", "swdir": "d", "swdir2": "i", "swr1": "j", "swr2": "k"}[name])
        with open(p, "w") as fh:
            fh.write("\n".join(lines) + "\n")
        paths.append(p)
    return paths, truth


# --------------------------------------------------------------------------------------- SPOTTER
def spotter(rng, d, kind="csv"):
    nt, nf = int(rng.integers(1, 9)), int(rng.integers(3, 40))
    f = np.round(0.0293 + 0.00977 * np.arange(nf), 5)
    t0 = _t0(rng)
    epochs = np.array([int((t0 - np.datetime64("1970-01-01T00:00:00")) / np.timedelta64(1, "s")) + int(k) * 1800 + int(rng.integers(0, 60)) for k in rng.permutation(nt)])
    e = 10 ** rng.uniform(-3, 1, (nt, nf))
    if rng.random() < 0.3:
        # calm records (every band exactly zero) are records too: time stamp, position and a zero spectrum
        e[rng.random(nt) < 0.4] = 0.0
        e[int(rng.integers(nt))] = 0.0
    dmf, dsf = rng.uniform(0, 360, (nt, nf)), rng.uniform(8, 80, (nt, nf))
    lat, lon = rng.uniform(-60, 60, nt), rng.uniform(-180, 180, nt)
    et, ev = _parse("%.6f", e)
    dt_, dv = _parse("%.3f", dmf)
    st, sv = _parse("%.3f", dsf)
    latv, lonv = np.round(lat, 5), np.round(lon, 5)
    if kind == "csv":
        cols = ["Battery Voltage (V) ", "Power (W) ", "Humidity (%rel) ", "Epoch Time ", "Significant Wave Height (m) ", "Peak Period (s) ", "Mean Period (s) ",
                "Peak Direction (deg) ", "Peak Directional Spread (deg) ", "Mean Direction (deg) ", "Mean Directional Spread (deg) ", "Latitude (deg) ", "Longitude (deg) "]
        groups = ["f", "df", "a1", "b1", "a2", "b2", "varianceDensity", "direction", "directionalSpread"]
        for g in groups:
            cols += ["%s_%d " % (g, i) for i in range(nf)]
        cols += ["Wind Speed (m/s) ", "Wind Direction (deg) "]
        rows = [",".join(cols)]
        for k in range(nt):
            r = ["4.07", "-0.33", "56.8", str(epochs[k]), "1.753", "14.628", "8.113", "291.978", "19.802", "290.361", "28.026", "%.5f" % latv[k], "%.5f" % lonv[k]]
            r += ["%.5f" % x for x in f] + ["0.00977"] * nf
            for _ in range(4):
                r += ["%.6f" % x for x in rng.uniform(-0.5, 0.5, nf)]
            r += list(et[k]) + list(dt_[k]) + list(st[k]) + ["5.1", "200"]
            rows.append(" ,".join(r))
        p = os.path.join(d, "spotter.csv")
        with open(p, "w") as fh:
            fh.write("\n".join(rows) + "\n")
    else:
        waves, fdat = [], []
        for k in range(nt):
            ts = str((np.datetime64("1970-01-01T00:00:00") + np.timedelta64(int(epochs[k]), "s")))
            waves.append({"significantWaveHeight": 1.6, "peakPeriod": 10.2, "meanPeriod": 8.7, "peakDirection": 300.0, "peakDirectionalSpread": 63.3,
                          "meanDirection": 349.2, "meanDirectionalSpread": 69.9, "timestamp": ts + ".000Z", "latitude": float(latv[k]), "longitude": float(lonv[k])})
            fdat.append({"frequency": [float(x) for x in f], "df": [0.00977] * nf, "a1": [0.1] * nf, "b1": [0.1] * nf, "a2": [0.1] * nf, "b2": [0.1] * nf,
                         "varianceDensity": [float(x) for x in ev[k]], "direction": [float(x) for x in dv[k]], "directionalSpread": [float(x) for x in sv[k]],
                         "timestamp": ts + ".000Z", "latitude": float(latv[k]), "longitude": float(lonv[k])})
        p = os.path.join(d, "spotter.json")
        with open(p, "w") as fh:
            json.dump({"data": {"spotterId": "SPOT-0000", "limit": 100, "waves": waves, "frequencyData": fdat}}, fh)
    times = (np.datetime64("1970-01-01T00:00:00") + epochs.astype("timedelta64[s]"))
    return [p], {"time": times, "freq": f, "e": ev, "dmf": dv, "dsprf": sv, "lat": latv, "lon": lonv}


# --------------------------------------------------------------------------------------- DATAWELL
def datawell(rng, d):
    nt, nf = int(rng.integers(1, 7)), int(rng.integers(3, 40))
    f = np.round(0.025 + 0.005 * np.arange(nf), 3)
    t0 = _t0(rng)
    ks = rng.permutation(nt)
    paths, times, E, DM, DS = [], [], [], [], []
    for k in ks:
        t = (t0 + np.timedelta64(int(k) * 1800 + 900, "s")).astype("datetime64[m]")
        smax = float("%.4E" % (10 ** rng.uniform(-2, 1)))
        rel = rng.uniform(0, 1, nf)
        rel[rng.integers(nf)] = 1.0
        rt, rv = _parse("%.4E", rel)
        dt_, dv = _parse("%.1f", rng.uniform(0, 360, nf))
        st, sv = _parse("%.1f", rng.uniform(8, 80, nf))
        hdr = ["10", "85.0", "4.545", "%.4E" % smax, "25.05", "19.65", "7", "-0.17625", "0.37500", "0.26250", "213.8", "68.203"]
        rows = ["%.3f,%s,%s,%s,%.2f,%.2f" % (f[i], rt[i], dt_[i], st[i], rng.uniform(-2, 2), rng.uniform(1, 3)) for i in range(nf)]
        s = str(t)
        p = os.path.join(d, "buoy}%sT%sh%sZ.spt" % (s[:10], s[11:13], s[14:16]))
        with open(p, "w") as fh:
            fh.write("\n".join(hdr + rows) + "\n")
        paths.append(p)
        times.append(t)
        E.append(rv * smax)
        DM.append(dv)
        DS.append(sv)
    return paths, {"time": np.array(times), "freq": f, "e": np.array(E), "dmf": np.array(DM), "dsprf": np.array(DS)}


# --------------------------------------------------------------------------------------- OBSCAPE
def obscape(rng, d):
    nt, nf = int(rng.integers(1, 6)), int(rng.integers(3, 30))
    dd = int(rng.choice([3, 5, 10, 15]))
    th = np.arange(0, 360, dd, dtype=float)
    f = np.round(np.sort(rng.uniform(0.04, 0.6, nf)), 6)
    while np.unique(f).size != nf:
        f = np.round(np.sort(rng.uniform(0.04, 0.6, nf)), 6)
    t0 = _t0(rng)
    paths, times, E = [], [], []
    for k in rng.permutation(nt):
        t = t0 + np.timedelta64(int(k) * 1800, "s")
        epoch = int((t - np.datetime64("1970-01-01T00:00:00")) / np.timedelta64(1, "s"))
        txt, val = _parse("%.4f", lobes(rng, f, th) * 57.3)
        s = str(t)
        lines = ["# Downloaded at 2024-04-13 19:04:00 [UTC]", "# Station name = Example file", "# Device type = Wavebuoy", "# Device serial = 123456",
                 "# Latitude [deg] = 12.123", "# Longitude [deg] = 1.234", "# Timestamp = %d" % epoch, "# Timestring = %s" % s.replace("T", " "),
                 "# Timezone = UTC", "# Magnetic declination (corrected) [deg] = 3.14", "# Directions = True North", "# ",
                 "# Columns [deg] = %d,%d,%d,... %d" % (0, dd, 2 * dd, 360 - dd), "# Rows [Hz] = " + ",".join("%.6f" % x for x in f),
                 "# Variance-density [m2/Hz/rad]"]
        lines += [",".join(r) for r in txt]
        p = os.path.join(d, "%s_%s_wavebuoy_spec2D.csv" % (s[:10].replace("-", ""), s[11:19].replace(":", "")))
        with open(p, "w") as fh:
            fh.write("\n".join(lines) + "\n")
        paths.append(p)
        times.append(t)
        E.append(val * np.pi / 180.0)      # file is per radian
    return paths, {"time": np.array(times), "freq": f, "dir": th, "E": np.array(E)}


# --------------------------------------------------------------------------------------- WW3 STATION
def ww3_station(rng, d, nloc=1):
    nt, nf, nd = int(rng.integers(1, 7)), int(rng.integers(3, 40)), int(rng.choice([8, 12, 24, 36]))
    ft, f = _parse("%.3E", 0.035 * 1.07 ** np.arange(nf))
    dd = 360.0 / nd
    th_from = (float(rng.choice([0.0, dd / 2])) + dd * np.arange(nd))[::-1].copy()
    th_from = np.roll(th_from, int(rng.integers(0, nd)))
    th_to = (th_from + 180.0) % 360.0
    rt, rad = _parse("%.3E", np.radians(th_to))
    th_true = (np.degrees(rad) + 180.0) % 360.0           # what the text says, as coming-from degrees
    t0 = _t0(rng)
    lat = np.round(np.sort(rng.uniform(-60, 60, nloc)), 2)
    lon = np.round(np.sort(rng.uniform(-180, 180, nloc)), 2)
    lines = ["'WAVEWATCH III SPECTRA'     %2d    %2d    %2d 'spectral resolution for points'" % (nf, nd, nloc)]
    for i in range(0, nf, 8):
        lines.append(" " + " ".join(ft[i:i + 8]))
    for i in range(0, nd, 7):
        lines.append("  " + "  ".join(rt[i:i + 7]))
    E, W, times = [], [], []
    step_s = int(rng.choice([3600, 3600, 1800, 4000, 1234, 10800]))       # output steps that are not whole minutes occur
    for k in range(nt):
        t = t0 + np.timedelta64(k * step_s, "s")
        s = str(t)
        rowE, rowW = [], []
        for p in range(nloc):
            Etrue = lobes(rng, f, th_true)
            txt, val = _parse("%.3E", (Etrue * 180.0 / np.pi).T)      # (dir, freq) per radian, frequency fastest
            wspd, wdir, dep = float("%.2f" % rng.uniform(0, 25)), float("%.1f" % rng.uniform(0, 360)), float("%.1f" % rng.uniform(5, 500))
            lines.append("%s %s" % (s[:10].replace("-", ""), s[11:19].replace(":", "")))
            lines.append("'%-10s'  %.2f %.2f %9.1f %6.2f %5.1f %6.2f %5.1f" % ("P%d" % p, lat[p], lon[p], dep, wspd, wdir, 0.18, 94.1))
            flat = txt.ravel()
            for i in range(0, flat.size, 7):
                lines.append("  " + "  ".join(flat[i:i + 7]))
            rowE.append(val.T * np.pi / 180.0)
            rowW.append((wspd, wdir, dep))
        E.append(rowE)
        W.append(rowW)
        times.append(t)
    p = os.path.join(d, "ww3station.spec")
    with open(p, "w") as fh:
        fh.write("\n".join(lines) + "\n")
    return [p], {"time": np.array(times), "freq": f, "dir": th_true, "E": np.array(E), "wind": np.array(W), "lat": lat, "lon": lon}


# --------------------------------------------------------------------------------------- SWAN ASCII
def swan(rng, d, opts):
    """opts: time (bool), loc ('LONLAT'|'LOCATIONS'), freq ('AFREQ'|'RFREQ'), dirs ('NDIR'|'CDIR'), quant ('VaDens'|'EnDens'), gz (bool)."""
    nt = int(rng.integers(1, 6)) if opts["time"] else 1
    ns, nf, nd = int(rng.integers(1, 5)), int(rng.integers(3, 30)), int(rng.choice([8, 12, 24, 36]))
    ft, f = _parse("%10.4f", 0.04 * 1.1 ** np.arange(nf))
    dd = 360.0 / nd
    th_from = float(rng.choice([0.0, dd / 2])) + dd * np.arange(nd)
    if rng.random() < 0.5:
        th_from = np.roll(th_from[::-1], int(rng.integers(0, nd)))
    if opts["dirs"] == "NDIR":
        hdr = th_from.copy()
        style = str(rng.choice(["0-360", "0-360", "zero-centred", "ends-at-360"]))
        if style == "zero-centred":
            hdr = np.where(hdr >= 180.0, hdr - 360.0, hdr)       # e.g. -180 .. 165
        elif style == "ends-at-360":
            hdr = np.where(hdr == 0.0, 360.0, hdr)
        dt_, dfile = _parse("%10.4f", hdr)
        th_true = dfile % 360.0
    else:
        cart = (270.0 - th_from) % 360.0            # Cartesian convention of the same physical directions
        cart = np.where(cart > 180, cart - 360, cart)
        dt_, dfile = _parse("%10.4f", cart)
        th_true = (270.0 - dfile) % 360.0
    x = np.round(rng.uniform(0, 359, ns) if rng.random() < 0.6 else rng.uniform(-179, 179, ns), 6)      # either longitude convention
    y = np.round(rng.uniform(-70, 70, ns), 6)
    L = ["SWAN   1                                Swan standard spectral file, version", "$   Data produced by SWAN version 41.31", "$   Project: test ; run number: 1"]
    if opts["time"]:
        L += ["TIME                                    time-dependent data", "     1                                  time coding option"]
    L += ["%-40s%s" % (opts["loc"], "locations"), "%6d                                  number of locations" % ns]
    L += ["%14.6f %14.6f" % (a, b) for a, b in zip(x, y)]
    L += ["%-40s%s" % (opts["freq"], "frequencies in Hz"), "%6d                                  number of frequencies" % nf] + list(ft)
    L += ["%-40s%s" % (opts["dirs"], "spectral directions in degr"), "%6d                                  number of directions" % nd] + list(dt_)
    L += ["QUANT", "     1                                  number of quantities in table"]
    if opts["quant"] == "VaDens":
        L += ["VaDens                                  variance densities in m2/Hz/degr", "m2/Hz/degr                              unit"]
        unit = 1.0
    else:
        L += ["EnDens                                  energy densities in J/m2/Hz/degr", "J/m2/Hz/degr                            unit"]
        unit = E2V
    L += ["   -0.9900E+02                          exception value"]
    t0 = _t0(rng)
    E, times, kinds = [], [], []
    for k in range(nt):
        t = t0 + np.timedelta64(k * 3600, "s")
        if opts["time"]:
            s = str(t)
            L.append("%s.%s                         date and time" % (s[:10].replace("-", ""), s[11:19].replace(":", "")))
        rowE, rowK = [], []
        for p in range(ns):
            kind = str(rng.choice(["FACTOR", "FACTOR", "FACTOR", "ZERO", "NODATA"]))
            if kind == "NODATA":
                L.append("NODATA                                  no data")
                rowE.append(np.full((nf, nd), np.nan))
            elif kind == "ZERO":
                L.append("ZERO                                    zero spectrum")
                rowE.append(np.zeros((nf, nd)))
            else:
                Et = lobes(rng, f, th_true) * unit
                fac = float("%.8E" % (Et.max() / 9999.0))
                ints = np.rint(Et / fac).astype(int)
                L.append("FACTOR")
                L.append("    %.8E" % fac)
                L += ["".join("%6d" % v for v in row) for row in ints]
                rowE.append(ints * fac / unit)
            rowK.append(kind)
        E.append(rowE)
        kinds.append(rowK)
        times.append(t)
    p = os.path.join(d, "points.spec" + (".gz" if opts["gz"] else ""))
    data = "\n".join(L) + "\n"
    if opts["gz"]:
        with gzip.open(p, "wt") as fh:
            fh.write(data)
    else:
        with open(p, "w") as fh:
            fh.write(data)
    return [p], {"time": np.array(times) if opts["time"] else None, "freq": f, "dir": th_true, "E": np.array(E), "x": x, "y": y, "kinds": kinds}


def swan_series(rng, d, name, f, th, x, y, t0, nt, step=3600):
    """Plain SWAN ASCII point file (LONLAT, AFREQ, NDIR, VaDens, TIME, FACTOR blocks only) with given
    grids, locations and time axis - building block for multi-file readers."""
    ft, fv = _parse("%10.4f", f)
    dt_, dv = _parse("%10.4f", th)
    L = ["SWAN   1                                Swan standard spectral file, version", "$   Data produced by SWAN version 41.31", "$   Project: test ; run number: 1",
         "TIME                                    time-dependent data", "     1                                  time coding option",
         "LONLAT                                  locations in spherical coordinates", "%6d                                  number of locations" % len(x)]
    L += ["%14.6f %14.6f" % (a, b) for a, b in zip(x, y)]
    L += ["AFREQ                                   absolute frequencies in Hz", "%6d                                  number of frequencies" % len(f)] + list(ft)
    L += ["NDIR                                    spectral nautical directions in degr", "%6d                                  number of directions" % len(th)] + list(dt_)
    L += ["QUANT", "     1                                  number of quantities in table", "VaDens                                  variance densities in m2/Hz/degr",
          "m2/Hz/degr                              unit", "   -0.9900E+02                          exception value"]
    E, times = [], []
    for k in range(nt):
        t = t0 + np.timedelta64(k * step, "s")
        s_ = str(t)
        L.append("%s.%s                         date and time" % (s_[:10].replace("-", ""), s_[11:19].replace(":", "")))
        row = []
        for p in range(len(x)):
            Et = lobes(rng, fv, dv)
            fac = float("%.8E" % (Et.max() / 9999.0))
            ints = np.rint(Et / fac).astype(int)
            L += ["FACTOR", "    %.8E" % fac] + ["".join("%6d" % v for v in r) for r in ints]
            row.append(ints * fac)
        E.append(row)
        times.append(t)
    p_ = os.path.join(d, name)
    with open(p_, "w") as fh:
        fh.write("\n".join(L) + "\n")
    return p_, np.array(times), np.array(E), fv, dv

def swan_fixed(d, name, f, th, x, y, t0, E):
    """SWAN ASCII file (LONLAT, AFREQ, NDIR, VaDens, TIME) holding exactly the densities E[t, point, f, th] given
    (values that are already multiples of a factor survive the FACTOR encoding unchanged; zero spectra are written as
    FACTOR blocks of zeros, as hotfiles have them)."""
    ft, fv = _parse("%10.4f", f)
    dt_, dv = _parse("%10.4f", th)
    L = ["SWAN   1                                Swan standard spectral file, version", "$   Data produced by SWAN version 41.31", "$   Project: test ; run number: 1",
         "TIME                                    time-dependent data", "     1                                  time coding option",
         "LONLAT                                  locations in spherical coordinates", "%6d                                  number of locations" % len(x)]
    L += ["%14.6f %14.6f" % (a, b) for a, b in zip(x, y)]
    L += ["AFREQ                                   absolute frequencies in Hz", "%6d                                  number of frequencies" % len(f)] + list(ft)
    L += ["NDIR                                    spectral nautical directions in degr", "%6d                                  number of directions" % len(th)] + list(dt_)
    L += ["QUANT", "     1                                  number of quantities in table", "VaDens                                  variance densities in m2/Hz/degr",
          "m2/Hz/degr                              unit", "   -0.9900E+02                          exception value"]
    for k in range(E.shape[0]):
        s_ = str(t0 + np.timedelta64(k * 3600, "s"))
        L.append("%s.%s                         date and time" % (s_[:10].replace("-", ""), s_[11:19].replace(":", "")))
        for p in range(len(x)):
            Et = E[k, p]
            m = float(Et.max())
            fac = float("%.8E" % (m / 9999.0)) if m > 0 else 1.0
            ints = np.rint(Et / fac).astype(int)
            L += ["FACTOR", "    %.8E" % fac] + ["".join("%6d" % v for v in r) for r in ints]
    p_ = os.path.join(d, name)
    with open(p_, "w") as fh:
        fh.write("\n".join(L) + "\n")
    return p_


# --------------------------------------------------------------------------------------- XWAVES
def xwaves(rng, d):
    from scipy.io import savemat
    nt, nf, nd = int(rng.integers(1, 6)), int(rng.integers(3, 30)), int(rng.choice([8, 12, 24, 36]))
    f = 0.04 * 1.1 ** np.arange(nf)
    th = (360.0 / nd) * np.arange(nd)
    t0 = _t0(rng)
    times = [t0 + np.timedelta64(k * 3600, "s") for k in range(nt)]
    td = np.array([[int(str(t)[0:4]), int(str(t)[5:7]), int(str(t)[8:10]), int(str(t)[11:13]), int(str(t)[14:16]), int(str(t)[17:19])] for t in times])
    E = np.array([lobes(rng, f, th) for _ in range(nt)])
    if nt > 1 and rng.random() < 0.4:
        # records in any order in the file (a later deployment stored first, descending logs): each keeps its own stamp
        o_ = rng.permutation(nt)
        times, td, E = [times[i] for i in o_], td[o_], E[o_]
    p = os.path.join(d, "xwaves.mat")
    savemat(p, {"td": td, "fd": f.reshape(-1, 1), "thetad": th.reshape(1, -1), "spec2d": E * 180.0 / np.pi})
    return [p], {"time": np.array(times), "freq": f, "dir": th, "E": E}
