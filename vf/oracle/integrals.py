"""Reference integrals for C01 (published definitions, bin by bin; numpy only).

E has shape (..., nf, nd) (nd may be absent: pass th=None and E of shape (..., nf)).
Directions are coming-from nautical degrees; dd is the grid's direction bin width.
"""
import numpy as np

G = 1.0 / 0.10194  # gravity consistent with the Chen & Thomson constant (9.8097)


def df_ref(f):
    f = np.asarray(f, dtype="float64")
    n = f.size
    if n == 1:
        return np.array([1.0])
    d = np.empty(n)
    d[0] = f[1] - f[0]
    d[-1] = f[-1] - f[-2]
    d[1:-1] = (f[2:] - f[:-2]) / 2.0
    return d


def circ_dd(th):
    """Bin width of a uniform direction grid from its stored sequence (any rotation/orientation)."""
    th = np.asarray(th, dtype="float64")
    if th.size < 2:
        return 1.0
    s = np.sort(th % 360.0)
    gaps = np.diff(np.concatenate([s, [s[0] + 360.0]]))
    # uniform grid: all gaps equal (full circle) or all but the closing gap equal (partial)
    return float(np.min(gaps))


def e1d(E, dd, has_dir=True):
    E = np.asarray(E, dtype="float64")
    return dd * E.sum(axis=-1) if has_dir else E


def tail(e1, f):
    return 0.25 * e1[..., -1] * f[-1] if f[-1] > 0.333 else 0.0 * e1[..., -1]


def m0_tail(e1, f, with_tail=True):
    df = df_ref(f)
    m = (e1 * df).sum(-1)
    if with_tail:
        m = m + tail(e1, np.asarray(f, dtype="float64"))
    return m


def momf(e1, f, n):
    f = np.asarray(f, dtype="float64")
    return (e1 * df_ref(f) * f ** n).sum(-1)


def dir_sums(E, f, th, dd):
    """S = sum E sin(theta) df dd ; C = sum E cos(theta) df dd (per spectrum)."""
    E = np.asarray(E, dtype="float64")
    df = df_ref(f)[:, None]
    t = np.radians(np.asarray(th, dtype="float64"))
    S = (E * np.sin(t) * df * dd).sum((-1, -2))
    C = (E * np.cos(t) * df * dd).sum((-1, -2))
    return S, C


def dm(E, f, th, dd, weighted=True):
    E = np.asarray(E, dtype="float64")
    df = df_ref(f)[:, None] if weighted else 1.0
    t = np.radians(np.asarray(th, dtype="float64"))
    S = (E * np.sin(t) * df * dd).sum((-1, -2))
    C = (E * np.cos(t) * df * dd).sum((-1, -2))
    return np.degrees(np.arctan2(S, C)) % 360.0, np.hypot(S, C)


def dspr(E, f, th, dd):
    S, C = dir_sums(E, f, th, dd)
    m0 = (e1d(E, dd) * df_ref(f)).sum(-1)
    r = np.hypot(S, C) / m0
    return np.degrees(np.sqrt(np.maximum(2.0 * (1.0 - r), 0.0))), 1.0 - r


def momd_per_freq(E, th, dd, n=1, theta=90.0):
    """(msin, mcos)(f) as the accessor defines them: weights sin/cos(180 + theta - direction)^n (theta = 90 by default)."""
    t = np.radians(180.0 + theta - np.asarray(th, dtype="float64"))
    E = np.asarray(E, dtype="float64")
    return (dd * E * np.sin(t) ** n).sum(-1), (dd * E * np.cos(t) ** n).sum(-1)


def k_deep(f):
    f = np.asarray(f, dtype="float64")
    return 2.0 * np.pi * f ** 2 / 1.56


def k_exact(f, depth):
    """Root of w^2 = g k tanh(k d) by Newton (g = 1/0.10194)."""
    f = np.asarray(f, dtype="float64")
    w2 = (2 * np.pi * f) ** 2
    k0 = w2 / G
    k = np.where(k0 * depth > 1, k0, np.sqrt(np.maximum(k0 / depth, 1e-300)))
    for _ in range(100):
        t = np.tanh(k * depth)
        fk = G * k * t - w2
        dfk = G * t + G * k * depth * (1 - t * t)
        k = np.maximum(k - fk / dfk, 1e-300)
    return k


def stokes(E, f, th, dd, k, theta=90.0):
    """(uss_x, uss_y, uss) surface Stokes drift: components of the going-to drift vector along the bearing
    theta (x; east for the default 90) and along theta - 90 (y; north for the default)."""
    E = np.asarray(E, dtype="float64")
    f = np.asarray(f, dtype="float64")
    w = (4.0 * np.pi * f * k * df_ref(f))[:, None]
    g = np.radians(np.asarray(th, dtype="float64") + 180.0)          # going-to bearing of each bin
    ux = (E * w * np.cos(g - np.radians(theta)) * dd).sum((-1, -2))
    uy = (E * w * np.cos(g - np.radians(theta - 90.0)) * dd).sum((-1, -2))
    us = (E * w * dd).sum((-1, -2))
    return ux, uy, us


def mss(e1, f, k):
    return (e1 * k ** 2 * df_ref(f)).sum(-1)


def goda(e1, f):
    f = np.asarray(f, dtype="float64")
    df = df_ref(f)
    m0 = (e1 * df).sum(-1)
    return 2.0 / m0 ** 2 * (e1 ** 2 * f * df).sum(-1)


def hs_trapz(E2d, f, th):
    """npstats.hs as documented: trapezoid over frequency of ddir*sum_dir E, plus the tail."""
    f = np.asarray(f, dtype="float64")
    E2d = np.asarray(E2d, dtype="float64")
    if th is not None and len(th) > 1:
        e = abs(float(th[1]) - float(th[0])) * E2d.sum(-1)
    else:
        e = E2d.reshape(E2d.shape[0])
    tot = 0.5 * np.sum(np.abs(np.diff(f)) * (e[1:] + e[:-1]))
    if f[-1] > 0.333:
        tot += 0.25 * e[-1] * f[-1]
    return 4.0 * np.sqrt(tot)
