"""Independent encoders of model-native datasets (C12), built in memory from a ground-truth
physical spectrum E_true(f [Hz], theta_from [deg]) in m2/Hz/deg. numpy + xarray containers only;
nothing here imports wavespectra.

Each builder returns (native Dataset, truth dict). truth: freq, dir (coming-from deg, same order as
the native axis), E (lead..., nf, nd) in m2/Hz/deg, native_variance (lead...) integrated with the
native units and widths, optional wspd/wdir/dpt/lon/lat, out_lead (names of leading dims expected)."""
import numpy as np
import xarray as xr

R2D = 180.0 / np.pi


def _times(n):
    return (np.datetime64("2021-03-01T00:00:00") + np.arange(n) * np.timedelta64(3600, "s")).astype("datetime64[ns]")


def _dirs(rng, nd, order):
    dd = 360.0 / nd
    # first label 0, half a bin, anywhere - or one bin, i.e. north written as 360 (2 pi in radian conventions)
    d = float(rng.choice([0.0, dd / 2, rng.uniform(0, dd), dd])) + dd * np.arange(nd)
    if order == "descending":
        d = d[::-1].copy()
    elif order == "rolled":
        d = np.roll(d, int(rng.integers(1, nd)))
    elif order == "ww3":   # e.g. 90, 75, ..., 0, 345, ...
        d = np.roll(d[::-1], int(rng.integers(0, nd)))
    return d, dd


def _freqs(rng, nf):
    kind = str(rng.choice(["log", "linear", "log_rounded", "log_drifting"]))
    lo = float(rng.uniform(0.03, 0.06))
    if kind == "log_rounded":
        return np.round(lo * 1.1 ** np.arange(nf), 4)                        # nominal values as printed in model set-ups
    if kind == "log_drifting":
        return lo * np.cumprod(np.concatenate([[1.0], np.linspace(1.1, 1.104, max(nf - 1, 1))[:nf - 1]]))
    return (lo * 1.1 ** np.arange(nf)) if kind == "log" else np.linspace(lo, lo + 0.02 * nf, nf)


def _df(f):
    f = np.asarray(f, dtype="float64")
    if f.size == 1:
        return np.array([1.0])
    d = np.empty(f.size)
    d[0], d[-1] = f[1] - f[0], f[-1] - f[-2]
    d[1:-1] = (f[2:] - f[:-2]) / 2
    return d


def truth_spectra(rng, f, th, lead_shape, zeros=False):
    """Ground-truth spectra: sums of directional lobes, each position different. zeros=True: in a third of the calls the
    flanks below a fraction of the peak are cut to exactly 0.0 (truncated spreading, sheltered sectors, calm bins) - a zero
    density is a value like any other in the conventions that store densities linearly."""
    n = int(np.prod(lead_shape)) if lead_shape else 1
    out = []
    for _ in range(n):
        E = np.zeros((len(f), len(th)))
        for _ in range(int(rng.integers(1, 4))):
            fp = float(rng.uniform(f[0], f[-1]))
            dm = float(rng.uniform(0, 360))
            ef = np.exp(-0.5 * ((f - fp) / (0.2 * fp)) ** 2)
            g = (np.cos(np.radians(th - dm) / 2) ** 2) ** float(rng.uniform(2, 20))
            E += float(10 ** rng.uniform(-2, 0.5)) * np.outer(ef, g)
        out.append(E)
    if zeros and rng.random() < 0.33:
        for E in out:
            E[E < float(10 ** rng.uniform(-3, -0.5)) * E.max()] = 0.0
    return np.array(out).reshape(tuple(lead_shape) + (len(f), len(th)))


def _wind(rng, shape):
    spd = rng.uniform(0.5, 30, shape)
    # light airs (centimetres per second) among the records: a direction is still a direction
    light = rng.random(shape) < 0.25
    spd = np.where(light, 10 ** rng.uniform(-2, -0.3, shape), spd)
    dfrom = rng.uniform(0, 360, shape)
    # vector the wind blows towards: u east, v north
    u = -spd * np.sin(np.radians(dfrom))
    v = -spd * np.cos(np.radians(dfrom))
    return spd, dfrom, u, v


def ww3(rng, with_wind=True, with_depth=True, lonlat_time=True, order=None):
    nt, ns, nf, nd = int(rng.integers(1, 4)), int(rng.integers(1, 4)), int(rng.integers(3, 12)), int(rng.choice([8, 12, 24, 36, 7, 9, 15, 25, 35]))
    f = _freqs(rng, nf)
    th_from, dd = _dirs(rng, nd, order or str(rng.choice(["ww3", "ascending", "rolled"])))
    E = truth_spectra(rng, f, th_from, (nt, ns), zeros=True)
    th_to = (th_from + 180.0) % 360.0
    ds = xr.Dataset()
    ds["efth"] = (("time", "station", "frequency", "direction"), (E * R2D).astype("float32"))   # m2 s rad-1
    ds = ds.assign_coords(time=_times(nt), station=np.arange(1, ns + 1), frequency=f.astype("float32"), direction=th_to.astype("float32"))
    lon, lat = rng.uniform(-180, 180, ns), rng.uniform(-60, 60, ns)
    if lonlat_time:
        ds["longitude"] = (("time", "station"), np.tile(lon, (nt, 1)).astype("float32"))
        ds["latitude"] = (("time", "station"), np.tile(lat, (nt, 1)).astype("float32"))
    else:
        ds["longitude"] = (("station",), lon.astype("float32"))
        ds["latitude"] = (("station",), lat.astype("float32"))
    truth = {"freq": ds.frequency.values.astype("float64"), "dir": th_from, "E": ds.efth.values.astype("float64") / R2D,
             "lon": lon.astype("float32"), "lat": lat.astype("float32"), "lead": ["time", "site"], "dd": dd}
    if with_wind:
        spd, dfrom, u, v = _wind(rng, (nt, ns))
        ds["wnd"] = (("time", "station"), spd.astype("float32"))
        ds["wnddir"] = (("time", "station"), dfrom.astype("float32"))
        truth.update(wspd=ds.wnd.values, wdir=ds.wnddir.values)
    if with_depth:
        ds["dpt"] = (("time", "station"), rng.uniform(5, 4000, (nt, ns)).astype("float32"))
        truth["dpt"] = ds.dpt.values
    ds["station_name"] = (("station", "string16"), np.full((ns, 16), b"a"))
    # native variance: sum efth[m2 s rad-1] df dtheta[rad]
    truth["native_variance"] = (ds.efth.values.astype("float64") * _df(truth["freq"])[:, None] * np.radians(dd)).sum((-1, -2))
    return ds, truth


def ncswan(rng, with_wind=True, with_depth=True, lonlat_time=False, order=None, negative_dirs=None):
    nt, ns, nf, nd = int(rng.integers(1, 4)), int(rng.integers(1, 4)), int(rng.integers(3, 12)), int(rng.choice([8, 12, 24, 36, 7, 9, 15, 25, 35]))
    f = _freqs(rng, nf)
    th_from, dd = _dirs(rng, nd, order or str(rng.choice(["ascending", "descending", "rolled"])))
    E = truth_spectra(rng, f, th_from, (nt, ns), zeros=True)
    rad = np.radians(th_from)
    if negative_dirs if negative_dirs is not None else rng.random() < 0.5:
        rad = np.where(rad > np.pi, rad - 2 * np.pi, rad)    # SWAN writes directions in (-pi, pi]
    ds = xr.Dataset()
    ds["density"] = (("time", "points", "frequency", "direction"), E * R2D)     # m2/Hz/rad
    ds = ds.assign_coords(time=_times(nt), frequency=f, direction=rad.astype("float32") if rng.random() < 0.4 else rad)
    lon, lat = rng.uniform(0, 360, ns), rng.uniform(-60, 60, ns)
    if lonlat_time:
        ds["longitude"] = (("time", "points"), np.tile(lon, (nt, 1)))
        ds["latitude"] = (("time", "points"), np.tile(lat, (nt, 1)))
    else:
        ds["longitude"] = (("points",), lon)
        ds["latitude"] = (("points",), lat)
    truth = {"freq": f, "dir": th_from, "E": E, "lon": lon, "lat": lat, "lead": ["time", "site"], "dd": dd}
    if with_wind:
        spd, dfrom, u, v = _wind(rng, (nt, ns))
        ds["xwnd"] = (("time", "points"), u)
        ds["ywnd"] = (("time", "points"), v)
        truth.update(wspd=spd, wdir=dfrom)
    if with_depth:
        ds["depth"] = (("time", "points"), rng.uniform(5, 4000, (nt, ns)))
        truth["dpt"] = ds.depth.values
    truth["native_variance"] = (ds.density.values * _df(f)[:, None] * np.radians(dd)).sum((-1, -2))
    return ds, truth


def wwm(rng, with_wind=True, with_depth=True, order=None):
    nt, ns, nf, nd = int(rng.integers(1, 4)), int(rng.integers(1, 4)), int(rng.integers(3, 12)), int(rng.choice([8, 12, 24, 36, 7, 9, 15, 25, 35]))
    if rng.random() < 0.3:
        nf = nd          # square spectral grids: a factor paired with the wrong axis does not fail on shape
    f = _freqs(rng, nf)
    th_from, dd = _dirs(rng, nd, order or str(rng.choice(["ascending", "descending", "rolled"])))
    E = truth_spectra(rng, f, th_from, (nt, ns), zeros=True)
    sig = 2 * np.pi * f
    # E(sigma, theta_rad) = E(f, theta_deg) * (df/dsigma) * (ddeg/drad) ; action N = E(sigma,theta)/sigma
    Esig = E / (2 * np.pi) * R2D
    AC = Esig / sig[:, None]
    ds = xr.Dataset()
    ds["AC"] = (("ocean_time", "nbstation", "nfreq", "ndir"), AC)
    ds["SPSIG"] = (("nfreq",), sig)
    rad_ = np.radians(th_from)
    if rng.random() < 0.25:
        rad_ = np.where(rad_ > np.pi, rad_ - 2 * np.pi, rad_)        # a direction grid written on -pi..pi (same physical directions)
    ds["SPDIR"] = (("ndir",), rad_.astype("float32") if rng.random() < 0.4 else rad_)
    ds = ds.assign_coords(ocean_time=_times(nt))
    u_ = rng.random()
    if u_ < 0.35:
        # the native spectral / station dimensions carry index coordinates (bin numbers from 0 or 1, or the values in Hz)
        o_ = int(rng.integers(0, 2))
        ds = ds.assign_coords(nfreq=(f if u_ < 0.1 else np.arange(o_, nf + o_)), ndir=np.arange(o_, nd + o_), nbstation=np.arange(o_, ns + o_))
    lon, lat = rng.uniform(-180, 180, ns), rng.uniform(-60, 60, ns)
    ds["lon"] = (("nbstation",), lon)
    ds["lat"] = (("nbstation",), lat)
    truth = {"freq": f, "dir": th_from, "E": E, "lon": lon, "lat": lat, "lead": ["time", "site"], "dd": dd}
    if with_wind:
        spd, dfrom, u, v = _wind(rng, (nt, ns))
        ds["Uwind"] = (("ocean_time", "nbstation"), u)
        ds["Vwind"] = (("ocean_time", "nbstation"), v)
        truth.update(wspd=spd, wdir=dfrom)
    if with_depth:
        ds["DEP"] = (("ocean_time", "nbstation"), rng.uniform(5, 4000, (nt, ns)))
        truth["dpt"] = ds.DEP.values
    # native variance: sum N sigma dsigma dtheta
    truth["native_variance"] = (AC * sig[:, None] * (2 * np.pi * _df(f))[:, None] * np.radians(dd)).sum((-1, -2))
    return ds, truth


ERA5_FREQS = 0.03453 * 1.1 ** np.arange(30)
ERA5_DIRS_TO = np.arange(7.5, 360, 15.0)       # native direction index j -> going-to direction


def era5(rng, missing=True, custom=False):
    nt, nlat, nlon = int(rng.integers(1, 3)), int(rng.integers(1, 4)), int(rng.integers(1, 4))
    f = ERA5_FREQS
    th_from = (ERA5_DIRS_TO + 180.0) % 360.0
    if custom:
        # the documented reader options freqs= / dirs=: the caller states the physical values of the bin numbers
        # (another model resolution, or the standard size with other values)
        nf_, nd_ = (30, 24) if rng.random() < 0.5 else (int(rng.integers(5, 37)), int(rng.choice([12, 18, 24, 36])))
        f = float(rng.uniform(0.03, 0.05)) * float(rng.uniform(1.05, 1.12)) ** np.arange(nf_)
        dd_ = 360.0 / nd_
        th_from = (float(rng.choice([0.0, dd_ / 2, 5.0])) + dd_ * np.arange(nd_) + 180.0) % 360.0
    NF, ND = len(f), len(th_from)
    E = truth_spectra(rng, f, th_from, (nt, nlat, nlon))
    E = np.where(E < 1e-8, 0.0, E)
    if missing:
        # some all-missing spectra (land) and empty bins
        if nlat * nlon > 1:
            E[:, 0, 0] = 0.0
    with np.errstate(divide="ignore"):
        d2fd = np.where(E > 0, np.log10(np.where(E > 0, E, 1.0) * R2D), np.nan)      # log10 of m2 s rad-1, NaN = missing
    ds = xr.Dataset()
    ds["d2fd"] = (("time", "frequency", "direction", "latitude", "longitude"), np.moveaxis(d2fd, (3, 4), (1, 2)).astype("float32"))
    ds = ds.assign_coords(time=_times(nt), latitude=40.0 - 0.5 * np.arange(nlat), longitude=10.0 + 0.5 * np.arange(nlon))
    # the spectral dims carry bin numbers, not physical values: 1-based as ECMWF writes them, 0-based, or none at all
    lab = str(rng.choice(["one_based", "one_based", "zero_based", "unlabelled"]))
    if lab != "unlabelled":
        o = 1 if lab == "one_based" else 0
        ds = ds.assign_coords(frequency=np.arange(o, NF + o), direction=np.arange(o, ND + o))
    vals = np.moveaxis(ds.d2fd.values.astype("float64"), (1, 2), (3, 4))
    Et = np.where(np.isnan(vals), 0.0, 10 ** vals / R2D)
    truth = {"freq": f, "dir": th_from, "E": Et, "lead": ["time", "lat", "lon"], "dd": 360.0 / ND}
    truth["native_variance"] = (np.where(np.isnan(vals), 0.0, 10 ** vals) * _df(f)[:, None] * np.radians(360.0 / ND)).sum((-1, -2))
    if custom:
        truth["reader_options"] = {"freqs": [float(x) for x in f], "dirs": [float(x) for x in th_from]}
    return ds, truth


def ndbc(rng, with_moments=True, singleton_latlon=None):
    nt, nf = int(rng.integers(1, 5)), int(rng.integers(3, 20))
    f = np.linspace(0.02, 0.02 + 0.01 * nf, nf)
    c11 = 10 ** rng.uniform(-3, 1, (nt, nf))
    a1, a2 = rng.uniform(0, 360, (nt, nf)), rng.uniform(0, 360, (nt, nf))
    r1, r2 = rng.uniform(0, 1.0, (nt, nf)), rng.uniform(0, 1.0 if rng.random() < 0.3 else 0.5, (nt, nf))
    if rng.random() < 0.5:
        # NDBC reports the moments in hundredths; the legal end values 0.00 and 1.00 occur (narrow swell)
        r1, r2 = np.round(r1, 2), np.round(r2, 2)
        for r in (r1, r2):
            k = rng.random(r.shape)
            r[k < 0.08] = 1.0
            r[k > 0.95] = 0.0
    sll = bool(rng.random() < 0.5) if singleton_latlon is None else singleton_latlon
    dims = ("time", "frequency", "latitude", "longitude") if sll else ("time", "frequency")

    def put(a):
        return a[:, :, None, None] if sll else a

    ds = xr.Dataset()
    ds["spectral_wave_density"] = (dims, put(c11))
    if with_moments:
        ds["mean_wave_dir"] = (dims, put(a1))
        ds["principal_wave_dir"] = (dims, put(a2))
        ds["wave_spectrum_r1"] = (dims, put(r1))
        ds["wave_spectrum_r2"] = (dims, put(r2))
    co = {"time": _times(nt), "frequency": f}
    if sll:
        co.update(latitude=[35.5], longitude=[-70.25])
    ds = ds.assign_coords(co)
    truth = {"freq": f, "c11": c11, "a1": a1, "a2": a2, "r1": r1, "r2": r2, "sll": sll}
    return ds, truth


def ndbc_truth_2d(t, dirs):
    """Longuet-Higgins two-harmonic distribution as NDBC documents it, per degree."""
    th = np.asarray(dirs, dtype="float64")[None, None, :]
    D = (0.5 + t["r1"][..., None] * np.cos(np.radians(th - t["a1"][..., None]))
         + t["r2"][..., None] * np.cos(2 * np.radians(th - t["a2"][..., None]))) / np.pi        # per radian
    return t["c11"][..., None] * D * np.pi / 180.0
