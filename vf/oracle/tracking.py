"""Invariants of partition-tracking output histories (C19). numpy only."""
import numpy as np

G = 9.80665


def dfp_wsea(wspd, fp, dt, scaling=1.0):
    """Ewans & Kibblewhite fetch-limited rate of change of the wind-sea peak frequency."""
    tmp = 15.8 * (G / wspd) ** 0.57
    t0 = (fp / tmp) ** (-1 / 0.43)
    return scaling * tmp * (t0 + dt) ** (-0.43) - fp


def dfp_swell(dt, distance=1e6):
    """Snodgrass et al. swell dispersion."""
    return dt * G / (4 * np.pi * distance)


def check(fp, dpm, wspd, dt, ids, nreported, ddpm_sea_max=30, ddpm_swell_max=20, scaling=1.0, distance=1e6, dd_noise=0.0, df_noise=0.0):
    """fp, dpm, ids: (P, T). Returns (problem | None, ambiguous: bool)."""
    P, T = fp.shape
    ids = np.asarray(ids)
    if ids.shape != (P, T):
        return ("shape", {"ids": ids.shape, "fp": fp.shape}), False
    empty = np.isnan(fp)
    # (1) missing marker <=> empty partition
    if not np.array_equal(ids == -999, empty):
        w = np.argwhere((ids == -999) != empty)[0]
        return ("missing-marker-mismatch", {"part": int(w[0]), "step": int(w[1]), "id": int(ids[tuple(w)]), "fp": float(fp[tuple(w)])}), False
    # (2) no identifier twice within a step
    for t in range(T):
        v = ids[~empty[:, t], t]
        if len(set(v.tolist())) != len(v):
            return ("identifier-used-twice-in-a-step", {"step": t, "ids": v.tolist()}), False
    # (3) identifiers are 0..N-1 in order of first appearance
    seen, order = set(), []
    for t in range(T):
        for p in range(P):
            if not empty[p, t] and int(ids[p, t]) not in seen:
                seen.add(int(ids[p, t]))
                order.append(int(ids[p, t]))
    if order != list(range(len(order))):
        return ("identifiers-not-issued-in-order-of-first-appearance", {"first_appearances": order[:40]}), False
    if int(nreported) != len(order):
        return ("reported-count-differs", {"reported": int(nreported), "distinct_ids": len(order)}), False
    # (4) continuity only within thresholds ; (5) never reappears
    amb = False
    dsw = dfp_swell(dt, distance)
    last_seen = {}
    for t in range(T):
        cur = {int(ids[p, t]): p for p in range(P) if not empty[p, t]}
        if t > 0:
            prev = {int(ids[p, t - 1]): p for p in range(P) if not empty[p, t - 1]}
            for k, i in cur.items():
                if k in prev:
                    j = prev[k]
                    dd = abs((dpm[i, t] - dpm[j, t - 1] + 180.0) % 360.0 - 180.0)
                    df = fp[i, t] - fp[j, t - 1]
                    ddmax = ddpm_sea_max if j == 0 else ddpm_swell_max
                    dmin = dfp_wsea(wspd[t - 1], fp[0, t - 1], dt, scaling) if j == 0 else -dsw
                    # dd_noise / df_noise: rounding of the statistics themselves when they were recomputed from float32
                    # results (end-to-end use); a comparison closer to its limit than that is not decidable
                    for val, lim, nz in ((dd, ddmax, dd_noise), (df, dsw, df_noise), (df, dmin, df_noise)):
                        if abs(val - lim) <= max(1e-12 * max(abs(lim), 1e-3), nz):
                            amb = True
                    if not (dd < ddmax and df < dsw and df > dmin):
                        return ("identifier-carried-outside-thresholds", {"step": t, "id": k, "prev_part": j, "cur_part": i, "ddpm": float(dd), "ddpm_max": float(ddmax),
                                                                          "dfp": float(df), "dfp_max": float(dsw), "dfp_min": float(dmin)}), amb
                elif k in last_seen:
                    return ("identifier-reappears-after-absence", {"step": t, "id": k, "last_seen_step": last_seen[k]}), amb
        for k in cur:
            last_seen[k] = t
    return None, amb
