"""Reference model for peak parameters (C02). numpy only."""
import numpy as np

G_STD = 9.80665  # scipy.constants.g, the constant the Phillips fit documents


def peak_candidates(e, tol):
    """Classify interior bins of a 1-D spectrum e.

    Returns (peaks, ambiguous): indices that are clearly strict local maxima, and True when some
    bin's status depends on differences below `tol` (but not exactly zero)."""
    n = e.size
    peaks, amb = [], False
    for i in range(1, n - 1):
        d1, d2 = e[i] - e[i - 1], e[i] - e[i + 1]
        for d in (d1, d2):
            if d != 0 and abs(d) <= tol:
                amb = True
        if d1 > 0 and d2 > 0:
            peaks.append(i)
    return peaks, amb


def the_peak(e, tol):
    """(ipeak or None, set of acceptable ipeaks on exact ties, ambiguous)."""
    peaks, amb = peak_candidates(e, tol)
    if not peaks:
        return None, set(), amb
    v = e[peaks]
    top = v.max()
    best = [p for p, x in zip(peaks, v) if x == top]
    near = [p for p, x in zip(peaks, v) if x != top and top - x <= tol]
    if near:
        amb = True
    return best[0], set(best), amb


def parabola_vertex(f, e, ip):
    """Frequency of the vertex of the parabola through bins ip-1, ip, ip+1 (Lagrange form)."""
    x1, x2, x3 = (float(f[ip - 1]), float(f[ip]), float(f[ip + 1]))
    y1, y2, y3 = (float(e[ip - 1]), float(e[ip]), float(e[ip + 1]))
    num = y1 * (x2 ** 2 - x3 ** 2) + y2 * (x3 ** 2 - x1 ** 2) + y3 * (x1 ** 2 - x2 ** 2)
    den = y1 * (x2 - x3) + y2 * (x3 - x1) + y3 * (x1 - x2)
    return 0.5 * num / den


def dir_moment_at(Erow, th):
    t = np.radians(np.asarray(th, dtype="float64"))
    S = float((Erow * np.sin(t)).sum())
    C = float((Erow * np.cos(t)).sum())
    tot = float(Erow.sum())
    return np.degrees(np.arctan2(S, C)) % 360.0, np.hypot(S, C), tot


def alpha_ref(e, f, fp):
    """Phillips tail fit as documented: mean over the window of
    (2pi)^4/g^2 * E f^5 exp(1.25 (fp/f)^4); window = freqs strictly inside (1.35fp, 2fp),
    the last two bins when empty, the bin and its upper (or lower at the top) neighbour when one.
    Returns (alpha, margin) with margin = smallest relative distance of a frequency to a window edge."""
    f = np.asarray(f, dtype="float64")
    if not np.isfinite(fp):
        return np.nan, 1.0
    lo, hi = 1.35 * fp, 2.0 * fp
    margin = float(min(np.min(np.abs(f - lo) / lo), np.min(np.abs(f - hi) / hi)))
    pos = np.where((f > lo) & (f < hi))[0]
    n = f.size
    if pos.size == 0:
        pos = np.array([n - 2, n - 1])
    elif pos.size == 1:
        pos = np.array([pos[0] - 1, pos[0]]) if pos[0] == n - 1 else np.array([pos[0], pos[0] + 1])
    s, ff = e[pos], f[pos]
    a = (2 * np.pi) ** 4 / G_STD ** 2 / ((pos[-1] - pos[0]) + 1) * np.sum(s * ff ** 5 * np.exp(1.25 * (fp / ff) ** 4))
    return float(a), margin


GAMMA_POLY = [0.0378375, -0.13543292, 0.64087366, 0.32524949, 0.12974958]


def gamma_ref(epeak, hs, fp, scaled=True):
    """E(fp)/E_PM(fp) with alpha_PM = 0.3125 hs^2 fp^4, E_PM(fp) = alpha_PM fp^-5 * 0.2865048."""
    epm = 0.3125 * hs ** 2 * fp ** 4 * fp ** -5 * 0.2865048
    g = epeak / epm
    if scaled:
        g = sum(c * g ** p for p, c in enumerate(GAMMA_POLY[::-1]))
    if not np.isfinite(g):
        return 1.0  # documented floor: where(gamma >= 1, 1)
    return float(g) if g >= 1 else 1.0
