"""Post-conditions of the watershed partition methods (C03), from the observed label map."""
import numpy as np

from . import integrals as I


def basins(L):
    n = int(L.max())
    return [(L == k) for k in range(1, n + 1)]


def windsea_masks(freq, dirs, wspd, wdir, dpt, agefac, celerity_lib):
    """(mask, ambiguous): wind-sea bins by agefac*U*cos(theta-theta_w) > c(f,d).

    c is taken from the exact dispersion relation; bins where the library's documented
    approximation (0.1 %) could flip the comparison are flagged ambiguous."""
    f = np.asarray(freq, dtype="float64")
    up = agefac * wspd * np.cos(np.radians(np.asarray(dirs, dtype="float64") - wdir))
    zero = f <= 0
    fs = np.where(zero, 1.0, f)
    c = 2 * np.pi * fs / I.k_exact(fs, dpt)
    up2 = np.tile(up, (f.size, 1))
    c2 = np.tile(c[:, None], (1, len(dirs)))
    mask = up2 > c2
    amb = np.abs(up2 - c2) <= 3e-3 * np.abs(c2) + 1e-12
    # a 0 Hz row has no phase speed (0/0 in the library, sqrt(g d) in the limit): either side is accepted
    # for the wind-sea decision, but the bins must still end up in exactly one partition
    mask[zero] = False
    amb[zero] = True
    return mask, amb


def frac_bounds(part, mask, amb):
    tot = part.sum()
    if tot <= 0:
        return np.nan, np.nan
    lo = part[mask & ~amb].sum() / tot
    hi = part[mask | amb].sum() / tot
    return lo, hi


def check(kind, spectrum, L, freq, dirs, out, requested, wind=None, celerity_lib=None, hs_rtol=1e-9, weak_ok=False):
    """Return (problems, inconclusive_reason). problems: list of (mechanism, data)."""
    S = np.asarray(spectrum)
    out = np.asarray(out)
    probs = []
    nlead = {"ptm1": 1, "ptm2": 2, "ptm3": 0}[kind]
    nb = int(L.max())
    # ---- count -------------------------------------------------------------------------
    if requested is not None and out.shape[0] != requested + nlead:
        probs.append(("wrong-partition-count", {"got": int(out.shape[0]), "want": requested + nlead}))
        return probs, None
    if out.shape[1:] != S.shape:
        probs.append(("wrong-shape", {"got": out.shape, "want": S.shape}))
        return probs, None
    # ---- each bin is the input bin or zero, exactly in the returned dtype -------------------
    Sc = S.astype(out.dtype)
    same = (out == Sc[None]) | (out == 0)
    if not same.all():
        p, i, j = np.argwhere(~same)[0]
        probs.append(("bin-neither-input-nor-zero", {"part": int(p), "bin": [int(i), int(j)], "out": float(out[p, i, j]), "in": float(Sc[i, j])}))
    # ---- disjoint ---------------------------------------------------------------------------
    nz = (out != 0).sum(0)
    if (nz > 1).any():
        i, j = np.argwhere(nz > 1)[0]
        probs.append(("bin-in-two-partitions", {"bin": [int(i), int(j)], "parts": np.flatnonzero(out[:, i, j] != 0)}))
    tot = out.sum(0)
    if (tot > Sc * (1 + 1e-6) + 0).any() and (nz <= 1).all():
        probs.append(("sum-exceeds-input", {}))
    if probs:
        return probs, None
    # ---- classification of basins --------------------------------------------------------------
    bas = basins(L)
    inconcl = None
    keep = None
    if kind == "ptm3":
        sea_basins, mask = [], None
        swell_src = [(k, np.where(b, Sc, 0)) for k, b in enumerate(bas)]
    else:
        wspd, wdir, dpt, agefac, wscut = wind
        # the library forms the fraction from sums in the dtype of the data: two float32 sums of ~nf*nd terms
        fr_tol = 1e-9 if np.asarray(S).dtype == np.float64 else 4e-6
        mask, amb = windsea_masks(freq, dirs, wspd, wdir, dpt, agefac, celerity_lib)
        sea_basins, swell_src = [], []
        for k, b in enumerate(bas):
            part = np.where(b, S.astype("float64"), 0.0)
            lo, hi = frac_bounds(part, mask, amb)
            if np.isnan(lo):
                swell_src.append((k, np.where(b, Sc, 0)))      # empty basin: nan > wscut is False
            elif hi == 0.0 and wscut >= 0:
                # no energy inside the wind-sea region (not even in the ambiguous bins): the fraction is exactly zero in
                # any arithmetic, and zero does not exceed any cutoff >= 0
                swell_src.append((k, np.where(b, Sc, 0)))
            elif lo > wscut + fr_tol and hi > wscut + fr_tol:
                sea_basins.append(k)
            elif hi < wscut - fr_tol and lo < wscut - fr_tol:
                swell_src.append((k, np.where(b, Sc, 0)))
            else:
                return [], "wind-sea fraction within rounding/approximation of the cutoff"
        if amb.any() and kind == "ptm2":
            # per-bin split of swells depends on the ambiguous bins only if they hold energy
            if any((src[amb] != 0).any() for _, src in swell_src):
                if not weak_ok:
                    return [], "a wind-sea boundary bin with energy lies within the dispersion approximation"
                # decided without the ambiguous bins: membership on the other bins, and every bin in exactly one partition
                keep = ~amb
    zero = np.zeros_like(Sc)
    same_arr = (lambda a, b: np.array_equal(a, b)) if keep is None else (lambda a, b: np.array_equal(a[keep], b[keep]))
    # ---- expected wind-sea partitions -------------------------------------------------------------
    if kind == "ptm1":
        exp0 = sum((np.where(bas[k], Sc, 0) for k in sea_basins), zero)
        if not np.array_equal(out[0], exp0):
            probs.append(("ptm1-windsea-membership", {"sea_basins": sea_basins, "nbasins": nb}))
        swells_exp = [src for _, src in swell_src] + [zero for _ in sea_basins]
        got_swells = out[1:]
    elif kind == "ptm2":
        exp0 = sum((np.where(bas[k], Sc, 0) for k in sea_basins), zero)
        exp1 = sum((np.where(mask, src, 0) for _, src in swell_src), zero)
        if not np.array_equal(out[0], exp0):
            probs.append(("ptm2-primary-windsea-membership", {"sea_basins": sea_basins, "nbasins": nb}))
        if not same_arr(out[1], exp1):
            probs.append(("ptm2-secondary-windsea-membership", {}))
        swells_exp = [np.where(mask, 0, src) for _, src in swell_src] + [zero for _ in sea_basins]
        got_swells = out[2:]
    else:
        swells_exp = [src for _, src in swell_src]
        got_swells = out
    # ---- swells: multiset equality with the kept ones, dropped are the smallest, ordering -----------
    hs = lambda a: I.hs_trapz(a, freq, dirs)
    exp_h = np.array([hs(a) for a in swells_exp]) if swells_exp else np.zeros(0)
    got_h = np.array([hs(a) for a in got_swells]) if len(got_swells) else np.zeros(0)
    tolh = hs_rtol * (exp_h.max() if exp_h.size else 1.0) + 1e-300
    if got_h.size > 1 and (np.diff(got_h) > tolh).any():
        probs.append(("swells-not-in-descending-hs", {"hs": got_h}))
    # empty partitions last
    empt = np.array([not a.any() for a in got_swells])
    if empt.size and (np.diff(empt.astype(int)) < 0).any():
        # an empty partition followed by a non-empty one: only a problem when the later one has Hs > 0
        later = [i for i in range(1, len(empt)) if empt[i - 1] and not empt[i] and got_h[i] > tolh]
        if later:
            probs.append(("empty-partition-before-nonempty", {"hs": got_h}))
    # match kept partitions against expected ones (as a multiset of arrays)
    remaining = list(range(len(swells_exp)))
    for gi, g in enumerate(got_swells):
        if not g.any():
            continue
        hit = [r for r in remaining if same_arr(swells_exp[r], g)]
        if not hit:
            probs.append(("swell-is-not-a-basin", {"index": gi, "hs": float(got_h[gi])}))
            break
        remaining.remove(hit[0])
    if not probs:
        dropped_h = np.array([exp_h[r] for r in remaining]) if remaining else np.zeros(0)
        nonempty_dropped = [r for r in remaining if swells_exp[r].any()]
        nkept = len(got_swells)
        if requested is None or len(swells_exp) <= nkept:
            if nonempty_dropped:
                probs.append(("energy-dropped-although-enough-partitions-requested", {"dropped_hs": dropped_h}))
        else:
            kept_min = got_h.min() if got_h.size else np.inf
            if keep is None and dropped_h.size and dropped_h.max() > kept_min + tolh:
                probs.append(("dropped-partition-larger-than-a-kept-one", {"dropped_hs": dropped_h, "kept_hs": got_h}))
    # ---- conservation ------------------------------------------------------------------------------
    enough = requested is None or len(swells_exp) <= len(got_swells)
    if enough and not probs:
        if not np.array_equal(out.sum(0).astype(out.dtype), Sc) and not np.array_equal(tot, Sc):
            unl = (L == 0) & (Sc != 0)
            if unl.any():
                probs.append(("energy-in-unlabelled-bins-dropped", {"bins": int(unl.sum()), "labels_max": nb}))
            else:
                probs.append(("sum-differs-from-input", {}))
    return probs, inconcl
