"""Fresh-process oracle for C18: a server that imports wavespectra and then only forks.

Each request is executed in a forked child, i.e. in a process whose library state is exactly
"just imported, nothing ever called" (C static buffers unallocated, ATTRS as loaded, no cached
accessors). Protocol: length-prefixed pickles on stdin/stdout."""
import os
import pickle
import struct
import sys
import traceback


def _read(f, n):
    b = b""
    while len(b) < n:
        c = f.read(n - len(b))
        if not c:
            raise EOFError
        b += c
    return b


def serve(so):
    from vf import build
    build.install(so)
    import warnings
    warnings.filterwarnings("ignore")
    import numpy as np
    # numpy's default error state: operations that warn must really warn, so that a warning filter
    # leaked by an earlier call (history process) shows as a difference
    np.seterr(divide="warn", over="warn", invalid="warn", under="ignore")
    import xarray as xr  # noqa
    import wavespectra  # noqa
    from vf import hist

    fin, fout = sys.stdin.buffer, sys.stdout.buffer
    while True:
        try:
            (n,) = struct.unpack("<q", _read(fin, 8))
        except EOFError:
            return
        req = pickle.loads(_read(fin, n))
        r, w = os.pipe()
        pid = os.fork()
        if pid == 0:
            os.close(r)
            try:
                res = ("ok", hist.observe(hist.rebuild(req["obj"]), req["obs"]))
            except BaseException as e:
                res = ("raised", "%s: %s" % (type(e).__name__, str(e)[:300]))
            try:
                data = pickle.dumps(res)
            except BaseException:
                data = pickle.dumps(("raised", "unpicklable result: " + traceback.format_exc()[-300:]))
            with os.fdopen(w, "wb") as fw:
                fw.write(data)
            os._exit(0)
        os.close(w)
        with os.fdopen(r, "rb") as fr:
            data = fr.read()
        os.waitpid(pid, 0)
        fout.write(struct.pack("<q", len(data)) + data)
        fout.flush()


class Client:
    def __init__(self, so):
        import subprocess
        from vf import PYTHON, VERIF_ROOT
        env = dict(os.environ)
        env["PYTHONPATH"] = VERIF_ROOT
        env.pop("LD_PRELOAD", None)
        self.p = subprocess.Popen([PYTHON, "-m", "vf.zygote", so], stdin=subprocess.PIPE, stdout=subprocess.PIPE,
                                  env=env, cwd=VERIF_ROOT)

    def ask(self, obj_state, obs):
        data = pickle.dumps({"obj": obj_state, "obs": obs})
        self.p.stdin.write(struct.pack("<q", len(data)) + data)
        self.p.stdin.flush()
        (n,) = struct.unpack("<q", _read(self.p.stdout, 8))
        return pickle.loads(_read(self.p.stdout, n))

    def close(self):
        try:
            self.p.stdin.close()
            self.p.wait(timeout=10)
        except Exception:
            self.p.kill()


if __name__ == "__main__":
    serve(sys.argv[1])
