"""Shared operation table for the metamorphic / differential monitors (C05, C06, C07, C10, C17, C18).

Each op: fn(x, aux) -> xarray result, where x is a DataArray (efth) and aux a dict with
wind/depth DataArrays over x's non-spectral dims and fixed parameters.
meta: kind  'stat' | 'spectra' | 'parts' ; circ (direction-valued) ; exact (discrete output);
      watershed (ptm1-3: compared as multisets of partitions); needs ('dir','wind','nf2',...)."""
import numpy as np


class Op:
    def __init__(self, name, fn, kind="stat", circ=False, exact=False, watershed=False,
                 needs_dir=True, needs_wind=False, min_nf=1, cond=None, whole_time=False, peak=False,
                 scale="none", rot="none"):
        self.name, self.fn, self.kind, self.circ, self.exact = name, fn, kind, circ, exact
        self.watershed, self.needs_dir, self.needs_wind, self.min_nf = watershed, needs_dir, needs_wind, min_nf
        self.whole_time, self.peak = whole_time, peak
        self.scale, self.rot = scale, rot   # behaviour under E->kE ('sqrt','lin','none','spec') and dir->dir+a ('shift','none','spec')


def build():
    ops = []
    A = ops.append
    A(Op("hs", lambda x, a: x.spec.hs(), needs_dir=False, scale="sqrt"))
    A(Op("hs_notail", lambda x, a: x.spec.hs(tail=False), needs_dir=False, scale="sqrt"))
    A(Op("hrms", lambda x, a: x.spec.hrms(), needs_dir=False, scale="sqrt"))
    A(Op("hmax", lambda x, a: x.spec.hmax(), needs_dir=False, whole_time=True, scale="sqrt"))
    A(Op("tm01", lambda x, a: x.spec.tm01(), needs_dir=False))
    A(Op("tm02", lambda x, a: x.spec.tm02(), needs_dir=False))
    A(Op("momf1", lambda x, a: x.spec.momf(1), needs_dir=False, scale="lin"))
    A(Op("dm", lambda x, a: x.spec.dm(), circ=True, rot="shift"))
    A(Op("dspr", lambda x, a: x.spec.dspr()))
    A(Op("swe", lambda x, a: x.spec.swe(), needs_dir=False))
    A(Op("sw", lambda x, a: x.spec.sw(), needs_dir=False))
    A(Op("gw", lambda x, a: x.spec.gw(), needs_dir=False, scale="none"))
    A(Op("goda", lambda x, a: x.spec.goda(), needs_dir=False))
    A(Op("uss", lambda x, a: x.spec.uss(), scale="lin"))
    A(Op("uss_x", lambda x, a: x.spec.uss_x(depth=a["depth0"]), scale="lin", rot="skip"))
    A(Op("uss_y", lambda x, a: x.spec.uss_y(), scale="lin", rot="skip"))
    A(Op("mss", lambda x, a: x.spec.mss(), needs_dir=False, scale="lin"))
    # the same with the depth given per position (a DataArray over the non-spectral dims, possibly in another order or
    # lacking one of them): each spectrum with its own depth
    A(Op("uss_dpt", lambda x, a: x.spec.uss(depth=a["dpt"]), scale="lin"))
    A(Op("uss_x_dpt", lambda x, a: x.spec.uss_x(depth=a["dpt"]), scale="lin", rot="skip"))
    A(Op("uss_y_dpt", lambda x, a: x.spec.uss_y(depth=a["dpt"]), scale="lin", rot="skip"))
    A(Op("mss_dpt", lambda x, a: x.spec.mss(depth=a["dpt"]), needs_dir=False, scale="lin"))
    A(Op("oned", lambda x, a: x.spec.oned(), kind="spectra", scale="lin"))
    A(Op("to_energy", lambda x, a: x.spec.to_energy(), kind="spectra", needs_dir=False, scale="lin", rot="relabel"))
    A(Op("tp", lambda x, a: x.spec.tp(), needs_dir=False, min_nf=3, peak=True))
    A(Op("tp_raw", lambda x, a: x.spec.tp(smooth=False), needs_dir=False, min_nf=3, peak=True, exact=True))
    A(Op("fp", lambda x, a: x.spec.fp(), needs_dir=False, min_nf=3, peak=True))
    A(Op("dp", lambda x, a: x.spec.dp(), circ=True, exact=True, rot="shift"))
    A(Op("dpm", lambda x, a: x.spec.dpm(), circ=True, min_nf=3, peak=True, rot="shift"))
    A(Op("dpspr", lambda x, a: x.spec.dpspr(), min_nf=3, peak=True))
    A(Op("dpspr_mom2", lambda x, a: x.spec.dpspr(mom=2), min_nf=3, peak=True))
    A(Op("alpha", lambda x, a: x.spec.alpha(), needs_dir=False, min_nf=3, peak=True, scale="lin"))
    A(Op("gamma", lambda x, a: x.spec.gamma(), needs_dir=False, min_nf=3, peak=True))
    A(Op("stats", lambda x, a: x.spec.stats(["hs", "tm01", "tm02"]), scale="skip"))
    A(Op("smooth", lambda x, a: x.spec.smooth(3, 3), kind="spectra", min_nf=3, scale="lin", rot="relabel"))
    A(Op("smooth11", lambda x, a: x.spec.smooth(1, 1), kind="spectra", scale="lin", rot="relabel"))
    A(Op("smooth15", lambda x, a: x.spec.smooth(1, 5), kind="spectra", scale="lin", rot="relabel"))
    A(Op("smooth31", lambda x, a: x.spec.smooth(3, 1), kind="spectra", min_nf=3, scale="lin", rot="relabel"))
    A(Op("interp", lambda x, a: x.spec.interp(freq=a["freq_t"], dir=a["dir_t"]), kind="spectra", min_nf=2, scale="lin", rot="skip"))
    A(Op("interp_freq", lambda x, a: x.spec.interp(freq=a["freq_t"]), kind="spectra", needs_dir=False, min_nf=2, scale="lin", rot="relabel"))
    A(Op("interp_like", lambda x, a: x.spec.interp_like(a["like"]), kind="spectra", min_nf=2, scale="lin", rot="skip"))
    A(Op("rmse", lambda x, a: x.spec.rmse(a["other"]), min_nf=1, scale="skip", rot="skip"))
    A(Op("rotate", lambda x, a: x.spec.rotate(a["angle"]), kind="spectra", scale="lin", rot="relabel"))
    A(Op("split", lambda x, a: x.spec.split(fmin=a["fcut_lo"], fmax=a["fcut_hi"]), kind="spectra", needs_dir=False, min_nf=3, scale="lin", rot="relabel"))
    A(Op("split_dir", lambda x, a: x.spec.split(dmin=a["dmin"], dmax=a["dmax"]), kind="spectra", scale="lin", rot="skip"))
    A(Op("scale_by_hs", lambda x, a: x.spec.scale_by_hs("2*hs", hs_min=a["hs_min"]), kind="spectra", scale="skip", rot="relabel"))
    A(Op("ptm1", lambda x, a: x.spec.partition.ptm1(a["wspd"], a["wdir"], a["dpt"], swells=a["swells"]), kind="parts", watershed=True, needs_wind=True, min_nf=2, scale="lin", rot="skip"))
    A(Op("ptm2", lambda x, a: x.spec.partition.ptm2(a["wspd"], a["wdir"], a["dpt"], swells=a["swells"]), kind="parts", watershed=True, needs_wind=True, min_nf=2, scale="lin", rot="skip"))
    A(Op("hp01", lambda x, a: x.spec.partition.hp01(a["wspd"], a["wdir"], a["dpt"], swells=a["swells"]), kind="parts", watershed=True, needs_wind=True, min_nf=2, scale="lin", rot="skip"))
    A(Op("ptm3", lambda x, a: x.spec.partition.ptm3(parts=a["swells"] + 1), kind="parts", watershed=True, min_nf=2, scale="lin", rot="relabel"))
    A(Op("ptm3_smooth", lambda x, a: x.spec.partition.ptm3(parts=a["swells"] + 1, smooth=True, freq_window=1, dir_window=1), kind="parts", watershed=True, min_nf=2, scale="lin", rot="relabel"))
    A(Op("ptm4", lambda x, a: x.spec.partition.ptm4(a["wspd"], a["wdir"], a["dpt"], agefac=a["agefac"]), kind="parts", needs_wind=True, scale="lin", rot="skip"))
    A(Op("ptm5", lambda x, a: x.spec.partition.ptm5(a["fcut"]), kind="parts", needs_dir=False, min_nf=3, scale="lin", rot="relabel"))
    A(Op("bbox", lambda x, a: x.spec.partition.bbox(a["bboxes"]), kind="parts", min_nf=2, scale="lin", rot="skip"))
    return {o.name: o for o in ops}


def _angle(rng, x):
    """Rotation angle: any real, or a whole number of direction bins (exact shift of the grid)."""
    a = float(rng.uniform(-400, 400))
    if "dir" in x.dims and x.sizes["dir"] > 1 and rng.random() < 0.4:
        d = np.sort(x.dir.values.astype("float64"))
        a = float((d[1] - d[0]) * int(rng.integers(-12, 13)))
    return a


def make_aux(rng, x, xr):
    """Auxiliary arguments consistent with x (wind/depth over its non-spectral dims)."""
    names = [d for d in x.dims if d not in ("freq", "dir")]
    sizes = [x.sizes[d] for d in names]
    co = {n: x[n] for n in names}
    f = np.sort(x.freq.values.astype("float64"))
    a = {
        "wspd": xr.DataArray(rng.uniform(2, 30, sizes), dims=names, coords=co),
        "wdir": xr.DataArray(rng.uniform(0, 360, sizes), dims=names, coords=co),
        "dpt": xr.DataArray(10 ** rng.uniform(0.5, 3.3, sizes), dims=names, coords=co),
        "agefac": float(rng.uniform(1.0, 2.2)),
        "swells": int(rng.integers(1, 4)),
        "depth0": float(rng.uniform(5, 200)),
        "angle": _angle(rng, x),
        "hs_min": 0.0,
    }
    # the forcing may be stored in another dimension order than the spectra, or lack one of their dimensions
    # (a wind series shared by all sites, a static depth): xarray pairs by name / broadcasts
    u = rng.random()
    if len(names) >= 2 and u < 0.3:
        for k in ("wspd", "wdir", "dpt"):
            a[k] = a[k].transpose(*[names[i] for i in rng.permutation(len(names))])
    elif len(names) >= 1 and u < 0.42:
        for k in (("wspd", "wdir") if rng.random() < 0.5 else ("dpt",)):
            d = names[int(rng.integers(len(names)))]
            a[k] = a[k].isel({d: 0}, drop=True)
    if f.size >= 2:
        a["freq_t"] = np.linspace(f[0] * 0.7, f[-1] * 1.1, max(3, f.size - 1))
        a["fcut"] = float(f[0] + (f[-1] - f[0]) * rng.uniform(0.2, 0.8))
        lo = float(f[0] + (f[-1] - f[0]) * rng.uniform(0.05, 0.4))
        a["fcut_lo"], a["fcut_hi"] = lo, float(lo + (f[-1] - lo) * rng.uniform(0.3, 0.9))
    a["dir_t"] = np.arange(0.0, 360.0, float(rng.choice([15.0, 20.0, 45.0])))
    # a second array on x's own grid (rmse) and one on the target grid (interp_like); x's labels, x's storage order
    a["other"] = (x * xr.DataArray(1.0 + 0.5 * rng.random(x.shape), dims=x.dims, coords=x.coords)).astype(x.dtype).compute()
    if f.size >= 2:
        a["like"] = xr.DataArray(np.zeros((len(a["freq_t"]), len(a["dir_t"]))), dims=["freq", "dir"], coords={"freq": a["freq_t"], "dir": a["dir_t"]})
    a["dmin"], a["dmax"] = 45.0, 200.0
    if "dir" in x.dims and x.sizes["dir"] >= 3 and rng.random() < 0.5:
        # sector limits that coincide with direction bins (the limits are inclusive)
        d_ = np.sort(x.dir.values.astype("float64"))
        i_, j_ = sorted(int(v) for v in rng.choice(len(d_), 2, replace=False))
        a["dmin"], a["dmax"] = float(d_[i_]), float(d_[j_])
    if f.size >= 2:
        fm = float((f[0] + f[-1]) / 2)
        b1, b2 = dict(fmin=float(f[0]), fmax=fm, dmin=10.0, dmax=170.0), dict(fmin=fm * 1.0001, fmax=float(f[-1]), dmin=180.0, dmax=350.0)
        # open sides spelled the documented ways: key left out, or None (only sides whose default keeps the boxes disjoint)
        for b, keys in ((b1, ("fmin", "dmin")), (b2, ("fmax", "dmax"))):
            for k in keys:
                u = rng.random()
                if u < 0.25:
                    del b[k]
                elif u < 0.35:
                    b[k] = None
        a["bboxes"] = [b1, b2]
    return a
