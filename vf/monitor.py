"""Generic monitors: reach counters (sys.monitoring), purity snapshots, call wrappers."""
import hashlib
import os
import sys

import numpy as np

from . import repo_root

_TOOL = 3
_state = {"on": False}


def start_reach(rec):
    """Count entries into functions of the tree under verification (PY_START only)."""
    mon = getattr(sys, "monitoring", None)
    if mon is None:
        return
    prefix = os.path.join(repo_root(), "wavespectra") + os.sep
    counts = rec.reach

    census_dir = os.environ.get("VERIF_ARGCENSUS")          # diagnostic only (tools/arg_census.py), never part of a verdict
    census = _state["census"] = {} if census_dir else None

    def on_start(code, offset):
        fn = code.co_filename
        if not fn.startswith(prefix):
            return mon.DISABLE
        counts[fn[len(prefix):] + ":" + code.co_name] += 1
        if census is not None:
            try:
                loc = sys._getframe(1).f_locals
                nargs = code.co_argcount + code.co_kwonlyargcount
                for name in code.co_varnames[:nargs]:
                    if name in ("self", "cls") or name not in loc:
                        continue
                    toks = census.setdefault(fn[len(prefix):] + ":" + code.co_name + ":" + name, set())
                    if len(toks) < 16:
                        toks.add(_token(loc[name]))
            except Exception:
                pass

    try:
        mon.use_tool_id(_TOOL, "vf-reach")
    except ValueError:
        return
    mon.register_callback(_TOOL, mon.events.PY_START, on_start)
    mon.set_events(_TOOL, mon.events.PY_START)
    _state["on"] = True


def _token(v):
    """Coarse class of an argument value for the census."""
    if v is None or isinstance(v, (bool, str)):
        return repr(v)[:40]
    if isinstance(v, (int, float)):
        return repr(v)[:20]
    t = type(v).__name__
    if isinstance(v, np.ndarray):
        return "ndarray[%s,%dd]" % (v.dtype.kind, v.ndim)
    if t in ("DataArray", "Dataset"):
        try:
            lazy = bool(v.chunks)
        except Exception:
            lazy = False
        return t + ("[dask]" if lazy else "")
    if isinstance(v, (list, tuple, dict)):
        return "%s[%d]" % (t, min(len(v), 3))
    return t


def stop_reach():
    mon = getattr(sys, "monitoring", None)
    if _state.get("census") and os.environ.get("VERIF_ARGCENSUS"):
        import json
        with open(os.path.join(os.environ["VERIF_ARGCENSUS"], "census-%d.json" % os.getpid()), "w") as f:
            json.dump({k: sorted(v) for k, v in _state["census"].items()}, f)
    if mon is None or not _state["on"]:
        return
    mon.set_events(_TOOL, 0)
    mon.register_callback(_TOOL, mon.events.PY_START, None)
    mon.free_tool_id(_TOOL)
    _state["on"] = False


# ---------------------------------------------------------------------------
# purity snapshots (C17) ------------------------------------------------------

def _h(b):
    return hashlib.sha1(b).hexdigest()[:16]


def snap_array(a):
    a = np.asarray(a)
    if a.dtype == object:
        return ("obj", a.shape, repr(a.tolist())[:2000])
    return (str(a.dtype), a.shape, a.strides if a.ndim else (), _h(np.ascontiguousarray(a).tobytes()))


def snap_attrs(d):
    out = []
    for k in d:
        v = d[k]
        if isinstance(v, np.ndarray):
            out.append((k, "nd", snap_array(v)))
        else:
            out.append((k, type(v).__name__, repr(v)))
    return tuple(out)


def snapshot(obj, depth=0):
    """Deep, order-sensitive fingerprint of an argument object."""
    import xarray as xr

    if depth > 5:
        return ("deep", repr(type(obj)))
    if isinstance(obj, xr.DataArray):
        return ("DataArray", obj.name, tuple(obj.dims), _snap_var(obj.variable),
                tuple((k, tuple(c.dims), _snap_var(c.variable)) for k, c in obj.coords.items()),
                tuple(sorted(obj.indexes)) if hasattr(obj, "indexes") else ())
    if isinstance(obj, xr.Dataset):
        return ("Dataset", tuple(obj.sizes.items()), snap_attrs(obj.attrs), repr(sorted(obj.encoding.items())),
                tuple((k, tuple(v.dims), _snap_var(v)) for k, v in obj.variables.items()),
                tuple(obj.data_vars), tuple(obj.coords))
    if isinstance(obj, np.ndarray):
        base = obj.base if isinstance(obj.base, np.ndarray) else None
        return ("ndarray", snap_array(obj), obj.flags.writeable,
                snap_array(base) if base is not None else None)
    if isinstance(obj, dict):
        return ("dict", tuple((repr(k), snapshot(v, depth + 1)) for k, v in obj.items()))
    if isinstance(obj, (list, tuple)):
        return (type(obj).__name__, tuple(snapshot(v, depth + 1) for v in obj))
    if isinstance(obj, (np.generic, int, float, str, bool, type(None))):
        return ("scalar", type(obj).__name__, repr(obj))
    return ("other", type(obj).__name__, repr(obj)[:500])


def _snap_var(v):
    data = v._data if hasattr(v, "_data") else v.data
    kind = type(data).__module__.split(".")[0]
    if kind == "dask":
        vals = snap_array(np.asarray(data.compute()))
        extra = ("dask", tuple(data.chunks), data.name)
    else:
        vals = snap_array(np.asarray(v.values))
        extra = (kind,)
    return (vals, snap_attrs(v.attrs), repr(sorted(v.encoding.items(), key=lambda kv: str(kv[0]))), extra)


def diff_snap(a, b, path=""):
    """Human-readable first difference between two snapshots."""
    if a == b:
        return None
    if isinstance(a, tuple) and isinstance(b, tuple) and len(a) == len(b):
        for i, (x, y) in enumerate(zip(a, b)):
            d = diff_snap(x, y, path + "/%d" % i)
            if d:
                return d
    return "%s: %r -> %r" % (path, str(a)[:160], str(b)[:160])


# ---------------------------------------------------------------------------
# source-free failpoints (C17: "... returns (or raises)") ----------------------

class InjectedFault(RuntimeError):
    """Raised by a failpoint at the entry of a repository function."""


class Failpoints:
    """sys.monitoring(PY_START) on repository code only: count the function entries of a call, or make the
    k-th entry raise InjectedFault (a callee failing part-way through the operation)."""
    TOOL = 4

    def __init__(self):
        self.mon = getattr(sys, "monitoring", None)
        self.prefix = os.path.join(repo_root(), "wavespectra") + os.sep

    def _run(self, fn, k):
        mon = self.mon
        state = {"n": 0, "where": None}
        prefix = self.prefix

        def on_start(code, offset):
            if not code.co_filename.startswith(prefix):
                return mon.DISABLE
            state["n"] += 1
            if k is not None and state["n"] == k:
                state["where"] = code.co_filename[len(prefix):] + ":" + code.co_name
                raise InjectedFault("failpoint at entry %d (%s)" % (k, state["where"]))

        try:
            mon.use_tool_id(self.TOOL, "vf-failpoints")
        except ValueError:
            return None, None, None
        err = None
        try:
            mon.register_callback(self.TOOL, mon.events.PY_START, on_start)
            mon.set_events(self.TOOL, mon.events.PY_START)
            try:
                r = fn()
                if hasattr(r, "compute"):
                    r.compute()
            except BaseException as e:      # noqa: the injected fault may come back wrapped
                err = e
        finally:
            mon.set_events(self.TOOL, 0)
            mon.register_callback(self.TOOL, mon.events.PY_START, None)
            mon.free_tool_id(self.TOOL)
            mon.restart_events()
        return state["n"], state["where"], err

    def count(self, fn):
        if self.mon is None:
            return None
        n, _, err = self._run(fn, None)
        return n

    def inject(self, fn, k):
        return self._run(fn, k)
