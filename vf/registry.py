"""Static per-property configuration read by the parent (which never imports wavespectra)."""

# shards: number of worker processes per tier; timeout: per-shard wall-clock watchdog (s);
# asan: run workers against the ASan+UBSan build of the extension;
# crash_is_violation: a worker killed by signal / sanitizer is a violation (else inconclusive).
DEFAULT = {"shards": {"quick": 16, "thorough": 16}, "timeout": {"quick": 600, "thorough": 7200},
           "asan": False, "crash_is_violation": False}

REG = {}
NOT_APPLICABLE = []
HOOK_COMMITS = []


def reg(prop, **kw):
    d = dict(DEFAULT)
    d.update(kw)
    REG[prop] = d


reg("C01",
    technique="runtime monitor: independent reference-integral oracle (numpy, published definitions) over recorded accessor results on generated grids/spectra",
    level_text="Every statistic returned by the real accessors on thousands of generated datasets per run is compared with a bin-by-bin float64 evaluation of its published integral; held means: on the executions observed (counts per statistic, grid family, tail side, dtype in the evidence). Exploration is the right level: the property quantifies over all grids/spectra and only executions are observed.",
    level_note="Trusted: numpy, the reference formulas in vf/oracle/integrals.py (written from the definitions in the property text and docs/*.rst, g = 1/0.10194), tolerance 1e-9 (float64) / 2e-5 (float32); ill-conditioned quantities are counted inconclusive. nd=1 is treated with unit direction width as the library documents.",
    rule="case = (frequency-grid family x nf x fmax-side-of-0.333 x direction count/offset/rotation x dtype x leading dims x spectrum class x statistic); distinct = distinct such keys; non-trivial = spectrum has positive energy and the oracle was well conditioned")

reg("C02",
    technique="runtime monitor: independent peak model (strict interior maxima, parabola vertex, moments at the peak row, Phillips window rules) over recorded accessor results on designed 1-D shapes",
    level_text="tp/fp (discrete and smooth), dpm, dpspr, dp, alpha and gamma returned by the real accessors are compared per spectrum position with a reference that locates the largest interior strict local maximum itself; shapes are designed to sit on the edges the statement names (peak in bin 1, nf-2, the one-frequency alpha window, flat tops, equal peaks, monotone, edge maxima, zeros). Held = on the executions observed.",
    level_note="Trusted: numpy, vf/oracle/peaks.py. Frequencies are compared at the float32 resolution the peak ufuncs document; cases whose peak, vertex or window membership is decided by differences within rounding are counted inconclusive.",
    rule="case = (nf x grid family x nd x dtypes x leading dims x designed 1-D shape x peak position class [x alpha window population]) per statistic; distinct = distinct keys; non-trivial = every case whose oracle was well conditioned",
    must_observe=["tp", "tp_smooth", "dpm", "dpspr", "dp", "alpha", "gamma"],
    must_note=["alpha_window_0", "alpha_window_1", "alpha_window_many"])

reg("C04", asan=True, crash_is_violation=True,
    technique="runtime monitor: structural invariants of the label map returned by the real extension (ASan+UBSan build) against a set-theoretic model of regional minima / connectivity; exhaustive small grids + random",
    level_text="Every label map returned by wavespectra.partition.specpart.partition (compiled from the working tree with AddressSanitizer+UBSan) is checked against a set model: every bin labelled, labels == regional maxima of the discretised spectrum, one maximum per label, labels connected on the circular 8-neighbour grid, partition commutes with circular shifts. A finite sub-space is enumerated completely (evidence: exhaustive_subspace); beyond it cases are random. Held = on the executions observed.",
    level_note="Trusted: numpy, vf/oracle/watershed.py (independent of the immersion algorithm), the level discretisation as documented (round half away of (zmax-z)(ihmax-1)/(zmax-zmin) on the float32 buffer); real-valued cases within 1e-6 of a rounding boundary are inconclusive; constant spectra are outside the statement.",
    rule="exhaustive: every spectrum over {0..a-1} with both extremes present (ihmax=a) for all shapes up to the bin bound, each with its unit shift; random: (value kind x size class x nk/nth in {1,2,n} x ihmax); distinct = distinct (stream, shape or class, ihmax) keys; every non-constant map is non-trivial",
    must_observe=["map_exhaustive", "shift_exhaustive", "map_random", "shift_random"],
    timeout={"quick": 900, "thorough": 7200})

reg("C20", asan=True, crash_is_violation=True,
    technique="sanitizers + runtime exception monitor: ASan/UBSan stand-alone driver over exhaustive small grids, random contents and re-allocation sequences with a termination watchdog; exception / finiteness / ValueError monitor around public calls on degenerate inputs (ASan extension in-process)",
    level_text="The repository's specpart.c is linked unmodified into an AddressSanitizer+UBSan driver whose buffers are malloc'd at their exact size; every binary spectrum on every shape up to the stated bin bound is fed with six level counts, plus random contents and shape sequences that grow, shrink and transpose, under a watchdog. At Python level every public statistic/transform/partition is called on degenerate spectra and must return (NaN only where documented); invalid arguments must raise ValueError. Held = on the executions observed; a clean sanitizer run is not memory safety beyond the inputs driven.",
    level_note="Trusted: clang-14 ASan/UBSan (red zones miss non-adjacent overflows), the driver vf/native/driver.c, the NaN-allowance table in vf/checks/c20.py (zero energy, no interior peak, sw below 0.001 m, hmax with fewer than one wave per step, spreads at the rounding floor). hp01, tracking and the curve-fitting helpers are experimental/optimisers and are not required to succeed. ihmax<1, NaN and non-float32/non-contiguous raw inputs are outside the statement.",
    rule="native: (shape x ihmax) for exhaustive binary contents, (sequence-length class) for re-allocation sequences; python: (degenerate class x nf x nd x leading dims x dtype) per operation, invalid-argument kinds; distinct = distinct keys; all are non-trivial by construction (edge inputs)",
    must_observe=["native_exhaustive", "native_sequence", "py_alpha", "py_ptm1", "invalid_smooth_even_freq"],
    timeout={"quick": 900, "thorough": 10800}, timeout_is_violation=False)

reg("C03", asan=True, crash_is_violation=True,
    technique="runtime post-condition monitor on np_ptm1/2/3 and the accessor methods using the label map recorded from the real native call; independent wind-sea / ordering / conservation rules",
    level_text="Every partition array returned by the real np_ptm1/2/3 and spec.partition.ptm1/2/3 is checked, bin for bin, against the label map the native routine returned during that same call: each bin is the input bin or zero in the returned dtype, no bin in two partitions, exact count, exact sum when enough partitions are requested (else dropped ones are the smallest), wind-sea membership by the documented fraction/cutoff rule with an independent dispersion solve, swells in non-increasing trapezoid-Hs order with empties last. Held = on the executions observed.",
    level_note="Trusted: numpy, vf/oracle/partrules.py, the label map itself (its correctness is C04's business), the trapezoid Hs as documented for the array-level twin. Cases whose wind-sea fraction or a boundary bin lies within the 0.3 % dispersion approximation are inconclusive.",
    rule="case = (method x spectrum class x dtype x nf x nd x ihmax x requested vs detected in {lt,eq,gt,none}) at numpy level, (method x dtype x leading dims x grid x requested) at accessor level, each position decided separately; distinct = distinct keys; non-trivial = the native routine was observed and the oracle was well conditioned",
    must_observe=["np_ptm1", "np_ptm2", "np_ptm3", "acc_ptm1", "acc_ptm2", "acc_ptm3"])

reg("C05",
    technique="runtime metamorphic monitor: pairs of recorded executions op(x) / op(T x) over layout, dimension-order, dtype-width and stored-direction transformations, compared after aligning by labels",
    level_text="For every sampled operation (all statistics, smoothing, regridding, rotation, splitting, PTM1-5, bbox) the real accessor is run on a dataset and on a transformed copy that carries the same labelled values (dims permuted and stored in the new order, Fortran order, strided view, float32<->float64 of float32-representable data, every roll of the direction axis incl. the seam between the first two stored directions, descending directions, sortby) and the two recorded results must agree after alignment by labels (watershed outputs as multisets of partitions). Held = on the pairs observed.",
    level_note="Trusted: numpy/xarray label alignment in vf/compare.py; tolerances 1e-9 (float64) / 2e-5 (float32), directions on the circle. Discrete decisions that are exact or near ties (equal peaks, equal directional maxima) are inconclusive; watershed methods are exempt from the orientation reversal as the statement says.",
    rule="case = (operation x transformation x dtype x nd x leading dims x spectrum class); distinct = distinct keys; non-trivial = both executions returned and no discrete tie",
    must_observe=["hs", "smooth", "ptm1", "ptm3", "interp", "rotate", "dm", "tp"])

reg("C06",
    technique="runtime differential monitor: batched result at each position vs the same call on the extracted spectrum; perturbation monitor (replace one spectrum, all other positions bit-identical); Dataset-accessor vs efth-accessor identity",
    level_text="For datasets with 0-3 leading dimensions (time, site, lat, lon, part; any order, spectral dims not necessarily last) whose neighbouring spectra are deliberately very different, the real accessor result at sampled positions is compared with the result of the same call on that single spectrum with its own wind/depth; one spectrum (and its wind/depth) is then replaced and every other position must be bit-identical; the Dataset accessor must return an identical object, also after the Dataset has been edited in place (ds.coords[dir|freq] = ..., ds[dir] = ..., ds[efth] = ...). fit_jonswap / fit_gaussian are run on stacks mixing converging, non-converging (very narrow), two-peaked, noisy, single-bin and empty spectra: every position must equal (NaN pattern included) the fit of that spectrum alone, the reversed stack must give the reversed result and replacing one spectrum must leave the others bit-identical. Held = on the executions observed.",
    level_note="Trusted: xarray isel/loc for extracting/replacing positions; tolerances 1e-12 (float64) / 2e-6 (float32) for reductions, bit equality for the perturbation monitor. hmax is excluded as the statement says. Discrete ties and cancellation-prone widths are inconclusive.",
    rule="case = (operation x dtype x set of leading dims x spectral-dims-last or mixed) for each of the three monitors; distinct = distinct keys; non-trivial = dataset has >= 1 leading dim with differing spectra (positions compared: up to 12 per op)",
    must_observe=["single_vs_batched", "perturbation", "dataset_accessor", "fit_single_vs_batched", "fit_order", "fit_perturbation", "dataset_accessor_after_edit"],
    must_note=["fit_nan_positions", "fit_converged_positions"])

reg("C07", asan=True, crash_is_violation=True,
    technique="runtime differential monitor (chunked + scheduled vs in-memory) and sanitizer stress: threaded dask schedulers driving the ASan/UBSan watershed on mixed and equal grid shapes, with a per-thread native-call trace as interleaving evidence",
    level_text="Each sampled operation is computed on x and on x.chunk(c) under a synchronous or threaded scheduler (1-16 workers) and must succeed and equal the in-memory result; chunkings include one element per chunk on every dimension and splits of freq and dir. A stress workload runs watershed partitions of several datasets (different, transposed and equal grid shapes, so the routine's static buffers are re-allocated between threads) in one thread pool on the AddressSanitizer build, five repetitions each, with the switch interval lowered to 10 us; results must equal the serial ones and the worker must not die or report. Held = over the schedules these runs produced (thread switches between native calls are counted in the evidence), not over all schedules.",
    level_note="ThreadSanitizer cannot be loaded into this interpreter (DESIGN.md par.1), so absence of a data race is not claimed: the oracle is result equality + ASan/UBSan silence on the interleavings observed. The C entry point holds the GIL; a GIL release that never interleaves in a run would be missed (validated with a GIL-release mutant).",
    rule="case = (operation x chunking kind x dtype x scheduler x workers x leading dims) and (stress: shape mix x workers x datasets, 5 repetitions); distinct = distinct keys; non-trivial = data actually dask-backed and compared",
    must_observe=["hs", "tp", "ptm1", "ptm3", "interp", "smooth", "stress", "combined"],
    must_note=["thread_switches_between_native_calls"])

reg("C10",
    technique="runtime metamorphic monitor on pairs of recorded runs (S, kS) and (S, S with directions relabelled by +a) plus bound invariants and a scale_by_hs post-condition",
    level_text="For every sampled statistic the real accessor is run on S and on k*S (k log-uniform in [1e-6,1e6]) and on S with dir -> (dir+a)%360 (a any real, incl. whole bins, 180, 360); heights must scale by sqrt k, drift/slope/alpha by k, directions shift by a mod 360 and everything else stay equal. On non-degenerate spectra the stated bounds are asserted on the recorded values, and scale_by_hs must give exactly expr(Hs) where all ranges are met and bit-identical spectra elsewhere. Held = on the pairs observed.",
    level_note="Trusted: numpy. Tolerances 1e-9 (float64) / 3e-5 (float32 and the float32 peak statistics). Degenerate spectra (energy in fewer than two frequencies or directions holding 1 % each), discrete ties and range edges within rounding are inconclusive.",
    rule="case = (relation x statistic x dtype x nd x spectrum class), bounds: (bound x dtype x nd x nf x class), scale_by_hs: (expression x dtype x active ranges x in/out of range); distinct = distinct keys",
    must_observe=["scaling:hs", "scaling:uss", "rotation:dm", "rotation:dp", "rotation:tm01", "bounds", "scale_by_hs"])

reg("C18",
    technique="runtime history monitor: observed operation after a seeded random history vs the same operation on a freshly constructed object in a forked child of an import-only server process (fresh library state); identical() comparison",
    level_text="Random histories (accessor calls, in-place edits of efth/dir/freq, watershed partitions on other, transposed and equal-size grid shapes, unknown statistic names, attribute-table lookups, readers) are executed on a Dataset or DataArray in one process; the observed operation on the edited object must return an object identical (values, coords, names, attrs) to what a freshly built object with the same contents returns in a process that has only imported the library. A probe also compares the Dataset accessor with the accessor of its efth variable after the history. Held = on the histories observed.",
    level_note="Trusted: fork() of a process that imported wavespectra and called nothing as the definition of 'fresh state'; xarray.identical as equality. Plain (non-sanitized) build so that both processes run the same binary.",
    rule="case = (Dataset|DataArray x observed operation x set of history step kinds); distinct = distinct keys; non-trivial = history has >= 1 step and both processes returned",
    must_observe=["history", "dataset_vs_efth_accessor"])

reg("C16",
    technique="runtime reference-model monitor: independent windowed (circular) mean and window min/max bounds over recorded smooth() results; grid-identity and ValueError monitors",
    level_text="spec.smooth / smooth_spec results on generated datasets (sorted, rolled, reversed and shuffled stored direction order; full-circle grids labelled 0..360, d..360 (north written as 360), -180..180 or one turn up, ordinary sectors and uniformly spaced sectors 1-3 bins short of the circle, all with exactly representable spacing; every odd window up to the grid size per dimension; extra dims; float32/64) are compared with an independent windowed mean that wraps on full-circle grids, keeps the input where the window does not fit, and must leave dims, coordinate values and their stored order untouched; even windows must raise ValueError. Held = on the executions observed.",
    level_note="Trusted: numpy, ref_smooth in vf/checks/c16.py. Tolerance 1e-9 / 2e-5 of the spectrum maximum.",
    rule="case = (stored order x dtype x nf x nd x full/partial:label convention x freq window x dir window x leading dims x class); distinct = distinct keys",
    must_observe=["smooth", "grid_kept", "even_window", "window_one_identity"])

reg("C08",
    technique="runtime reference-model + invariant monitor: independent circular linear interpolant with the documented anchors and single conserving factor, coordinate/identity/non-negativity/zero-above-fmax/Hs invariants, rotate == circular shift",
    level_text="spec.interp, interp_like, regrid_spec and rotate are run on generated source grids (sorted, rolled, reversed, shuffled directions, duplicated 0/360 bin; float64, float32 or integer-direction coordinates) and targets (coarser, finer, shifted, below f_min, above f_max, direction grids of other sizes/offsets); the recorded output must have exactly the requested coordinates, be the identity on the source grid (zero spectra included), stay non-negative, be zero above the source f_max, have the source Hs, equal an independently computed circular linear interpolant times one factor per spectrum, and rotation by whole bins / 360 must be a circular shift / identity. Held = on the executions observed.",
    level_note="Trusted: numpy.interp, vf/oracle/integrals.py for Hs. Target direction grids are uniform full-circle so that their bin width is defined; spectra whose interpolant has no energy are inconclusive for conservation. With float32 source coordinates the value tolerances are 3e-5 (interpolation weights carry single-precision rounding); the requested coordinates must still come back bit-exact.",
    rule="case = (mode[:target kind] x source direction storage x nf x nd x leading dims x maintain_m0 x entry point) per invariant; rotate: (angle kind x storage x nf x nd); distinct = distinct keys",
    must_observe=["coords_exact", "identity", "conservation", "reference", "nonnegative", "zero_above_fmax", "rotate", "rotate_coords"])

reg("C09",
    technique="runtime reference-rule monitor: recorded ptm4/ptm5/bbox/split/stats(limits) outputs vs bin membership computed independently from the stated rule (incl. bins placed exactly on the wave-age boundary), disjointness and exact-sum invariants",
    level_text="PTM4 masks are recomputed per position from celerity (the library's, cross-checked to 0.1 % against the exact dispersion root) and the independent wind component, with workloads that place a bin exactly on the boundary; bbox membership by the closed box with omitted limits = grid extent, complement last, overlap must raise ValueError; split keeps in-band bins bit-identical and adds the linear interpolant at off-node cutoffs (also when no grid frequency lies inside the band); PTM5 is zero strictly beyond the cutoff and equals input x one factor elsewhere; stats with limits equal stats of the explicit split. Held = on the executions observed.",
    level_note="Trusted: numpy; the exact dispersion solve in vf/oracle/integrals.py. Bins whose celerity and wind component differ by < 1e-9 relative without being equal are inconclusive; box edges avoid grid nodes so that 'sharing a bin' is unambiguous.",
    rule="case = (method x stored direction order x dtype x leading dims x [boundary placement | cutoff on/off node | number of boxes, omitted limits, sharing | band kind]); distinct = distinct keys",
    must_observe=["ptm4", "ptm5", "bbox", "bbox_overlap_rejected", "split", "stats_with_limits"],
    must_note=["ptm4_bins_exactly_on_boundary"])

reg("C12",
    technique="runtime reference-encoder monitor: native-convention datasets built in memory from a ground-truth spectrum by independent encoders; dispatcher trace; per-bin, variance, direction-sense, wind and position oracles on the converted output",
    level_text="WW3, SWAN-netCDF, WWM, ERA5 and NDBC-netCDF datasets are encoded from a known physical spectrum E(f, coming-from direction) by encoders written from the conventions (per radian / per rad/s action density / log10, going-to vs coming-from, radians vs degrees, wind components), with any sizes, direction orders and offsets, lon/lat with or without a time dimension, optional wind/depth present or absent, ERA5 missing values, NDBC with and without moments. read_dataset must pick the right converter (observed through wrappers on the names it looks up) and the output must be in the wavespectra convention, with dir in [0,360), every bin equal to the truth at its physical direction, the variance integrated with the converted coordinates equal to the native variance, and winds as speed and coming-from direction. Held = on the executions observed.",
    level_note="Trusted: the encoders in vf/oracle/native.py (they state the convention each model uses; the WW3 and ERA5 layouts were checked against tests/sample_files headers). float32 natives (WW3, ERA5) are compared at 3e-5.",
    rule="case = (model x entry point x option set); distinct = distinct keys per oracle; all cases non-trivial (random multi-lobe spectra, different at each position)",
    must_observe=["dispatch", "convention", "bins", "variance", "wind", "direction_sense" if False else "dir_range", "ndbc_integrates_to_1d", "ndbc_1d_unchanged"])

reg("C11",
    technique="runtime round-trip monitor: real writer -> file in a private temp dir -> real reader, compared position by position within the format's numeric resolution",
    level_text="Generated datasets in the wavespectra convention (1-6 times, 1-5 sites or lat x lon grids of unequal sizes, sorted/rolled/reversed directions, energies 1e-8..1e3, zero and all-missing spectra, gzip, chunked writing) are written with to_swan / to_octopus / to_json / to_netcdf (NetCDF-3, packed and unpacked) / to_ww3 / to_funwave and read back with the matching reader; times, position (lon/lat or site order), frequencies, directions and every density must agree to the format's quantum (SWAN 0.5 max/9998, Octopus 5e-8/(df dd), packed netCDF 0.5e-5, Funwave from %12.8f amplitudes, 4 ulp otherwise); zero stays zero and missing stays missing where the format has a NODATA/_FillValue/NaN. Held = on the round trips observed.",
    level_note="Not driven: NetCDF-4, zlib compression and zarr (no netCDF4/h5netcdf/zarr in this sandbox; only the scipy NetCDF-3 backend), so to_netcdf is called with ncformat=NETCDF3_64BIT, compress=False. Frequencies are generated on the text resolution of the formats (5 decimals) so that widths parsed from the file equal those written.",
    rule="case = (format/layout x number of positions x stored direction order x time count class x options) x spectrum kind (normal, tiny, huge, zero, nan); distinct = distinct keys; every compared spectrum is an evaluation",
    must_observe=["roundtrip_swan", "roundtrip_octopus", "roundtrip_json", "roundtrip_netcdf", "roundtrip_ww3", "roundtrip_funwave"])

reg("C17",
    technique="runtime purity monitor: deep snapshots (bytes, dtype, strides, dim order, coords, attrs, encodings, base buffers, dask graphs) of every argument object before a call and after it returns or raises",
    level_text="Every sampled public operation - accessor statistics/transforms/partitions on numpy-backed, view-of-caller-buffer and dask-backed arrays (through both accessors), the three selection methods with list/array queries and precomputed station coordinates, construction helpers with DataArray parameters and kwargs dictionaries, reader helpers (read_dataset / from_*) on in-memory native datasets, and the file writers - is wrapped by a monitor that fingerprints all argument objects before and after; any difference is a violation. Held = on the calls observed (counts per operation in the evidence).",
    level_note="Trusted: vf/monitor.snapshot (sha1 of contiguous bytes + metadata). A mutation that is undone before the call returns is invisible by design (the property speaks of the state after return/raise).",
    rule="case = (operation x backing [numpy|view|dask] x accessor kind) | (selection method x conventions x query container x precomputed) | (constructor x coord container) | (model x entry x backing) | writer; distinct = distinct keys",
    must_observe=["accessor:hs", "accessor:ptm1", "accessor:smooth", "sel:nearest", "sel:idw", "sel:bbox", "construct:construct_partition", "reader:ww3", "reader:ncswan", "reader:wwm", "writer:swan", "writer:ww3", "writer:netcdf", "writer:octopus"])

reg("C14",
    technique="runtime reference-geometry monitor: recorded Dataset.spec.sel results vs an independent model (short-way longitude differences, nearest/idw/bbox rules evaluated in the query's convention)",
    level_text="Station layouts (random, clustered around 0E/90E/180E/270E, pairs either side of Greenwich and of the dateline) are queried with nearest, idw and bbox selection for all four dataset/query convention combinations, tolerances 0-10, max_sites 1-6, duplicated query points, exact hits, query points off the station lattice (down to 0.003 degree from a station), float32 or float64 station coordinates, optional precomputed station coordinates, and call histories in which the same Dataset object was first queried with other station positions and then had lon/lat replaced in place; the recorded selection (identified by station-coded efth values), idw weights, failures above tolerance and reported longitudes are compared with an independent geometric model. Held = on the queries observed.",
    level_note="Trusted: numpy; vf/checks/c14.py geometry. Queries whose convention is ambiguous (all longitudes in [0,180]) and whose two readings select different stations, stations within 1e-9 of a box edge / meridian seam / the tolerance, and equidistant candidates are inconclusive.",
    rule="case = (method x station layout:coordinate dtype x dataset convention x query convention[:offlattice] x tolerance x precomputed x history [x max_sites]); distinct = distinct keys",
    must_observe=["nearest", "idw", "bbox", "history"])

reg("C15",
    technique="runtime reference-model monitor on the construction helpers: requested Hs measured by the real accessor, shape identities, spreading normalisation and equality with an independently sampled cos^2s reference, 2-D -> 1-D integration, measured vs requested direction/spread",
    level_text="For random parameter sets (hs 0.01-20 m, fp inside the grid, gamma 1-7, depth 1-1e5 m, gw 0.005-0.1; scalars and DataArrays over an extra dimension; log, linear and irregular frequency grids; full-circle direction grids of 8-360 bins starting anywhere; mean directions anywhere and within 1 deg of the 0/360 seam; spreads 5-80 deg) the real constructors are called and the result measured with the real accessor: Hs equals the request to 1e-9, densities are non-negative, JONSWAP(gamma=1)==PM, TMA(1e5 m)==JONSWAP, every spreading function is non-negative and integrates to one, equals the published cos^2s sampled on the grid, the 2-D product integrates back to the shape to 1e-12, measured dm/dspr equal those of the sampled ideal everywhere and the requested ones (0.01 deg) where the grid resolves the spread. Held = on the executions observed.",
    level_note="'Equal to the requested spread' can only hold up to the quadrature of the grid: it is decided in the resolved zone dd <= sigma/2 and sigma <= 50 deg and counted inconclusive outside it (DESIGN.md C15).",
    rule="case = (shape x grid family/size x scalar|DataArray parameters x coordinate container), (spreading: nd x dm placement x parameter kind x resolved|unresolved); distinct = distinct keys",
    must_observe=["shape_hs", "jonswap_gamma1_is_pm", "tma_deep_is_jonswap", "spread_normalised", "spread_is_cos2s", "spread_under_90", "asymmetric_normalised", "oned_is_shape", "measured_equals_sampled_ideal", "measured_equals_requested"])

reg("C19",
    technique="runtime offline checker over recorded tracking output histories (uniqueness per step, dense identifiers in order of first appearance, continuity only within recomputed thresholds, no reappearance, site independence); exhaustive short histories + random",
    level_text="np_track_partitions / track_partitions / ptm1_track are run on every history over a 7-state alphabet for (T,P) in {(2,3),(3,2)} (and (4,2) in the thorough tier) and on random histories (appearing, drifting, crossing, disappearing systems, reshuffled partition slots, seam-crossing directions, swept thresholds, T up to 200, P up to 6); each recorded identifier matrix is checked as a whole history. Held = on the histories observed; the exhaustive part is complete for the stated alphabet and lengths.",
    level_note="Trusted: vf/oracle/tracking.py (thresholds recomputed from the documented Ewans-Kibblewhite / Snodgrass expressions with scipy's g). The statement requires soundness of continuation, not maximal matching, so a tracker that links less is not flagged. Changes exactly on a threshold are inconclusive.",
    rule="exhaustive: every history of the alphabet per (T,P); random: (T x P x dt x default|swept thresholds); distinct = distinct keys; every history with >= 1 non-empty partition is non-trivial",
    must_observe=["history_exhaustive", "history_random", "sites_independent", "ptm1_track", "ptm1_track_params", "history_long"],
    must_note=["ptm1_track_identifiers_carried_under_defaults"],
    timeout={"quick": 900, "thorough": 14400})

reg("C13",
    technique="runtime reference-encoder monitor: files produced by independent encoders of each format (random contents, header variants, record order) are read by the real readers and compared with what the text says; 2-D vs 1-D consistency oracles",
    level_text="TRIAXYS (directional / non-directional, several files), NDBC ASCII (realtime and history layouts, with/without minutes, five-file directional and single-file 1-D), Spotter CSV and JSON, Datawell SPT, Obscape CSV, WW3 station text, SWAN ASCII (LONLAT/LOCATIONS, AFREQ/RFREQ, NDIR/CDIR, VaDens/EnDens, FACTOR/ZERO/NODATA, with or without TIME, gzip) and XWaves .mat files are generated by encoders written from the format layouts; the real readers must return the encoded timestamps (sorted), frequencies, directions (as coming-from degrees), positions and densities (unit factors pi/180, rho g), and where a directional spectrum is built from moments it must integrate back to the file's frequency spectrum and the 1-D request must return that spectrum unchanged. Held = on the files observed.",
    level_note="Trusted: vf/oracle/formats.py encoders (layouts checked against tests/sample_files headers; the truth is the parsed text, so precision is the file's). Instrument records are written in random order where the reader documents sorting; model files (SWAN, WW3 station) are chronological as the models write them. WW3-station files with several points are only checked up to coordinates (the reader's lat x lon grid layout of points is not asserted).",
    rule="case = (format variant x options/sizes); distinct = distinct keys per oracle; every file holds random multi-lobe spectra",
    must_observe=["triaxys", "ndbc", "ndbc_1d_unchanged", "integrates_to_1d:ndbc", "spotter", "1d_unchanged:spotter", "integrates_to_1d:spotter", "datawell", "integrates_to_1d:datawell", "obscape", "ww3_station", "swan", "xwaves", "swan_multi"])
