"""Static per-property configuration read by the parent (which never imports wavespectra)."""

# shards: number of worker processes per tier; timeout: per-shard wall-clock watchdog (s);
# asan: run workers against the ASan+UBSan build of the extension;
# crash_is_violation: a worker killed by signal / sanitizer is a violation (else inconclusive).
DEFAULT = {"shards": {"quick": 16, "thorough": 16}, "timeout": {"quick": 600, "thorough": 7200},
           "asan": False, "crash_is_violation": False}

REG = {}
NOT_APPLICABLE = []
HOOK_COMMITS = []


def reg(prop, **kw):
    d = dict(DEFAULT)
    d.update(kw)
    REG[prop] = d


reg("C01",
    technique="runtime monitor: independent reference-integral oracle (numpy, published definitions) over recorded accessor results on generated grids/spectra",
    level_text="Every statistic returned by the real accessors on thousands of generated datasets per run is compared with a bin-by-bin float64 evaluation of its published integral; held means: on the executions observed (counts per statistic, grid family, tail side, dtype in the evidence). Exploration is the right level: the property quantifies over all grids/spectra and only executions are observed.",
    level_note="Trusted: numpy, the reference formulas in vf/oracle/integrals.py (written from the definitions in the property text and docs/*.rst, g = 1/0.10194), tolerance 1e-9 (float64) / 2e-5 (float32); ill-conditioned quantities are counted inconclusive. nd=1 is treated with unit direction width as the library documents.",
    rule="case = (frequency-grid family x nf x fmax-side-of-0.333 x direction count/offset/rotation x dtype x leading dims x spectrum class x statistic); distinct = distinct such keys; non-trivial = spectrum has positive energy and the oracle was well conditioned")
