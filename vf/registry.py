"""Static per-property configuration read by the parent (which never imports wavespectra)."""

# shards: number of worker processes per tier; timeout: per-shard wall-clock watchdog (s);
# asan: run workers against the ASan+UBSan build of the extension;
# crash_is_violation: a worker killed by signal / sanitizer is a violation (else inconclusive).
DEFAULT = {"shards": {"quick": 16, "thorough": 16}, "timeout": {"quick": 600, "thorough": 7200},
           "asan": False, "crash_is_violation": False}

REG = {}
NOT_APPLICABLE = []
HOOK_COMMITS = []


def reg(prop, **kw):
    d = dict(DEFAULT)
    d.update(kw)
    REG[prop] = d


reg("C01",
    technique="runtime monitor: independent reference-integral oracle (numpy, published definitions) over recorded accessor results on generated grids/spectra",
    level_text="Every statistic returned by the real accessors on thousands of generated datasets per run is compared with a bin-by-bin float64 evaluation of its published integral; held means: on the executions observed (counts per statistic, grid family, tail side, dtype in the evidence). Exploration is the right level: the property quantifies over all grids/spectra and only executions are observed.",
    level_note="Trusted: numpy, the reference formulas in vf/oracle/integrals.py (written from the definitions in the property text and docs/*.rst, g = 1/0.10194), tolerance 1e-9 (float64) / 2e-5 (float32); ill-conditioned quantities are counted inconclusive. nd=1 is treated with unit direction width as the library documents.",
    rule="case = (frequency-grid family x nf x fmax-side-of-0.333 x direction count/offset/rotation x dtype x leading dims x spectrum class x statistic); distinct = distinct such keys; non-trivial = spectrum has positive energy and the oracle was well conditioned")

reg("C02",
    technique="runtime monitor: independent peak model (strict interior maxima, parabola vertex, moments at the peak row, Phillips window rules) over recorded accessor results on designed 1-D shapes",
    level_text="tp/fp (discrete and smooth), dpm, dpspr, dp, alpha and gamma returned by the real accessors are compared per spectrum position with a reference that locates the largest interior strict local maximum itself; shapes are designed to sit on the edges the statement names (peak in bin 1, nf-2, the one-frequency alpha window, flat tops, equal peaks, monotone, edge maxima, zeros). Held = on the executions observed.",
    level_note="Trusted: numpy, vf/oracle/peaks.py. Frequencies are compared at the float32 resolution the peak ufuncs document; cases whose peak, vertex or window membership is decided by differences within rounding are counted inconclusive.",
    rule="case = (nf x grid family x nd x dtypes x leading dims x designed 1-D shape x peak position class [x alpha window population]) per statistic; distinct = distinct keys; non-trivial = every case whose oracle was well conditioned",
    must_observe=["tp", "tp_smooth", "dpm", "dpspr", "dp", "alpha", "gamma"],
    must_note=["alpha_window_0", "alpha_window_1", "alpha_window_many"])
