"""Worker process: routes imports to the tree under verification, runs one shard."""
import argparse
import importlib
import os
import sys
import traceback
import warnings


def main():
    ap = argparse.ArgumentParser()
    ap.add_argument("--prop", required=True)
    ap.add_argument("--tier", default="quick")
    ap.add_argument("--seed", type=int, default=0)
    ap.add_argument("--shard", type=int, default=0)
    ap.add_argument("--nshards", type=int, default=1)
    ap.add_argument("--so", required=True)
    ap.add_argument("--out", required=True)
    ap.add_argument("--only", default=None, help="stream:idx to replay")
    ap.add_argument("--verbose", action="store_true")
    a = ap.parse_args()

    from vf import build
    build.install(a.so)
    warnings.filterwarnings("ignore")
    import numpy as np
    np.seterr(all="ignore")
    build.verify_routing(a.so)

    from vf.rec import Rec, Ctx
    from vf import monitor

    rec = Rec(a.prop, a.tier, a.seed, a.shard, a.nshards, curfile=a.out + ".cur")
    only = None
    if a.only:
        s, i = a.only.rsplit(":", 1)
        only = (s, int(i))
    ctx = Ctx(rec, a.prop, a.tier, a.seed, a.shard, a.nshards, only=only)
    ctx.verbose = a.verbose
    monitor.start_reach(rec)
    try:
        mod = importlib.import_module("vf.checks." + a.prop.lower())
        mod.run(ctx)
    except BaseException:
        rec.crash = traceback.format_exc()
    finally:
        monitor.stop_reach()
        rec.dump(a.out)
    if rec.crash:
        sys.stderr.write(rec.crash)
        sys.exit(3)


if __name__ == "__main__":
    main()
