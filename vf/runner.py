"""Parent process of ./check: build, shard, aggregate, classify, write evidence."""
import argparse
import collections
import concurrent.futures as cf
import glob
import json
import os
import shutil
import subprocess
import sys
import tempfile
import time

from . import VERIF_ROOT, PYTHON, GUARD, repo_root
from . import build, findings
from .registry import REG

MAX_PAR = 16


def _env(asan, logbase=None):
    env = dict(os.environ)
    env["PYTHONHASHSEED"] = "0"
    env[GUARD] = "1"
    env["PYTHONPATH"] = VERIF_ROOT
    env["PYTHONDONTWRITEBYTECODE"] = "1"
    for v in ("OMP_NUM_THREADS", "OPENBLAS_NUM_THREADS", "MKL_NUM_THREADS", "NUMEXPR_NUM_THREADS"):
        env[v] = "1"
    env["MPLBACKEND"] = "Agg"
    if asan:
        env["LD_PRELOAD"] = build.asan_runtime()
        env["ASAN_OPTIONS"] = "detect_leaks=0:halt_on_error=1:abort_on_error=0:exitcode=99:log_path=%s" % logbase
        env["UBSAN_OPTIONS"] = "print_stacktrace=1:halt_on_error=1:exitcode=99:log_path=%s" % logbase
    return env


def run_shard(prop, tier, seed, shard, nshards, so, asan, outdir, timeout, only=None, verbose=False):
    out = os.path.join(outdir, "shard%03d.json" % shard)
    logbase = os.path.join(outdir, "san%03d" % shard)
    cmd = [PYTHON, "-m", "vf.worker", "--prop", prop, "--tier", tier, "--seed", str(seed),
           "--shard", str(shard), "--nshards", str(nshards), "--so", so, "--out", out]
    if only:
        cmd += ["--only", only]
    if verbose:
        cmd += ["--verbose"]
    t0 = time.time()
    res = {"shard": shard, "status": "ok", "rc": None, "stderr": "", "san_reports": []}
    try:
        p = subprocess.run(cmd, env=_env(asan, logbase), cwd=VERIF_ROOT, capture_output=True,
                           text=True, timeout=timeout, errors="replace")
        res["rc"] = p.returncode
        res["stderr"] = p.stderr[-6000:]
        res["stdout"] = p.stdout[-20000:]
        if p.returncode != 0:
            res["status"] = "crash"
    except subprocess.TimeoutExpired as e:
        res["status"] = "timeout"
        res["stderr"] = (e.stderr or b"")[-3000:].decode("utf8", "replace") if isinstance(e.stderr, bytes) else str(e.stderr)[-3000:]
    res["wall_s"] = time.time() - t0
    for f in glob.glob(logbase + ".*"):
        with open(f, errors="replace") as fh:
            res["san_reports"].append(fh.read()[-8000:])
    if os.path.exists(out):
        with open(out) as f:
            res["data"] = json.load(f)
    cur = out + ".cur"
    if os.path.exists(cur):
        with open(cur) as f:
            res["cur"] = f.read().strip()
    return res


def main(argv=None):
    ap = argparse.ArgumentParser(prog="check")
    ap.add_argument("prop")
    ap.add_argument("--tier", default="quick", choices=["quick", "thorough"])
    ap.add_argument("--replay", default=None)
    ap.add_argument("--shards", type=int, default=None)
    ap.add_argument("--no-evidence", action="store_true")
    a = ap.parse_args(argv)
    prop = a.prop.upper()
    if prop not in REG:
        print("unknown property %s" % prop)
        return 2
    cfg = REG[prop]
    tier = os.environ.get("VERIF_TIER") or a.tier
    if tier not in ("quick", "thorough"):
        tier = a.tier
    seed = int(os.environ.get("VERIF_SEED", "0") or 0)
    t0 = time.time()

    kind = "asan" if cfg["asan"] else "plain"
    try:
        so = build.build_ext(kind)
    except Exception as e:
        # the tree no longer compiles: nothing observable -> inconclusive, not a violation
        print("INCONCLUSIVE property=%s reason=build-failed: %s" % (prop, str(e)[:500]))
        return 2

    outdir = tempfile.mkdtemp(prefix="vf-%s-" % prop.lower())
    try:
        if a.replay:
            return replay(prop, cfg, a.replay, so, outdir)
        nshards = a.shards or cfg["shards"][tier]
        timeout = cfg["timeout"][tier]
        with cf.ThreadPoolExecutor(max_workers=min(MAX_PAR, nshards)) as ex:
            futs = [ex.submit(run_shard, prop, tier, seed, s, nshards, so, cfg["asan"], outdir, timeout)
                    for s in range(nshards)]
            results = [f.result() for f in futs]
        return aggregate(prop, cfg, tier, seed, results, time.time() - t0, write=not a.no_evidence)
    finally:
        shutil.rmtree(outdir, ignore_errors=True)


def replay(prop, cfg, path, so, outdir):
    with open(path) as f:
        rp = json.load(f)
    case = rp.get("case")
    if not case:
        print(json.dumps(rp, indent=1)[:4000])
        return 0
    only = "%s:%d" % (case[0], case[1])
    r = run_shard(prop, rp.get("tier", "quick"), rp.get("seed", 0), 0, 1, so, cfg["asan"], outdir,
                  cfg["timeout"]["quick"], only=only, verbose=True)
    print("replay of %s case %s: worker status=%s rc=%s" % (prop, only, r["status"], r["rc"]))
    d = r.get("data") or {}
    print("events:", d.get("events"))
    print("inconclusive:", d.get("inconclusive"))
    for v in d.get("violations", []):
        print("VIOLATION-DETAIL", json.dumps(v)[:3000])
    if r.get("san_reports"):
        print("\n".join(r["san_reports"])[:4000])
    if r["stderr"]:
        print(r["stderr"][-2000:])
    return 1 if (d.get("nviol") or r["status"] != "ok") else 0


def aggregate(prop, cfg, tier, seed, results, wall, write=True):
    known = findings.load()
    events = collections.Counter()
    inconcl = collections.Counter()
    reach = collections.Counter()
    notes = collections.Counter()
    mech_counts = collections.Counter()
    classes = set()
    samples, violations, extra = [], [], {}
    nviol = 0
    crashes, timeouts, san = [], [], []
    for r in results:
        d = r.get("data")
        if r["status"] == "timeout":
            timeouts.append(r)
        elif r["status"] == "crash":
            crashes.append(r)
        if r["san_reports"]:
            san.append(r)
        if not d:
            continue
        events.update(d["events"]); inconcl.update(d["inconclusive"]); reach.update(d["reach"])
        notes.update(d["notes"]); mech_counts.update(d["viol_by_mech"])
        classes.update(d["classes"])
        nviol += d["nviol"]
        for v in d["violations"]:
            v["shard"] = r["shard"]
            violations.append(v)
        if len(samples) < 6:
            samples.extend(d["samples"][:1])
        for k, v in (d.get("extra") or {}).items():
            if isinstance(v, (int, float)) and not isinstance(v, bool):
                extra[k] = extra.get(k, 0) + v
            elif isinstance(v, list):
                extra.setdefault(k, [])
                extra[k] = (extra[k] + [x for x in v if x not in extra[k]])[:50]
            else:
                extra.setdefault(k, v)

    os.makedirs(os.path.join(VERIF_ROOT, "replays"), exist_ok=True)
    for old in glob.glob(os.path.join(VERIF_ROOT, "replays", "%s-%s-*.json" % (prop, tier))):
        os.remove(old)
    lines, rc = [], 0
    known_seen = collections.Counter()
    unknown = []
    for mech, n in sorted(mech_counts.items(), key=lambda kv: str(kv[0])):
        if findings.is_known(known, prop, mech):
            known_seen[mech] = n
        else:
            unknown.append((mech, n))
    for mech, n in known_seen.items():
        lines.append("KNOWN-FINDING: property=%s %s [%s; seen %d times this run]" % (
            prop, known[(prop, mech)]["what"], mech, n))
    nrep = 0
    for mech, n in unknown:
        ex = [v for v in violations if (v["mech"] or "unclassified:" + v["op"]) == mech][:2]
        for v in ex or [{"mech": mech, "detail": "no example kept"}]:
            nrep += 1
            path = os.path.join(VERIF_ROOT, "replays", "%s-%s-%d.json" % (prop, tier, nrep))
            with open(path, "w") as f:
                json.dump({"property": prop, "tier": tier, "seed": seed, "mechanism": mech,
                           "count_this_run": n, "case": v.get("case"), "op": v.get("op"),
                           "class": v.get("class"), "detail": v.get("detail"),
                           "replay_cmd": "./check %s --replay %s" % (prop, path)}, f, indent=1)
            lines.append("VIOLATION property=%s replay=%s" % (prop, path))
        rc = 1

    # worker deaths / sanitizer reports
    for r in san + [c for c in crashes if c not in san]:
        bad = cfg["crash_is_violation"] or r["san_reports"]
        d = r.get("data") or {}
        if d.get("crash") and not r["san_reports"] and r["rc"] == 3:
            bad = False  # exception inside the monitor itself: the check is broken, not the tree
        nrep += 1
        path = os.path.join(VERIF_ROOT, "replays", "%s-%s-worker%d.json" % (prop, tier, r["shard"]))
        cur = (r.get("cur") or "").split()
        with open(path, "w") as f:
            json.dump({"property": prop, "tier": tier, "seed": seed, "mechanism": "worker-died",
                       "case": [cur[0], int(cur[1])] if len(cur) == 2 else None, "rc": r["rc"],
                       "sanitizer": r["san_reports"], "stderr": r["stderr"][-3000:],
                       "monitor_crash": d.get("crash")}, f, indent=1)
        if bad:
            lines.append("VIOLATION property=%s replay=%s" % (prop, path))
            rc = 1
            nviol += 1
        else:
            lines.append("INCONCLUSIVE property=%s worker %d died (rc=%s) see %s" % (prop, r["shard"], r["rc"], path))
            rc = rc or 2
    for r in timeouts:
        if cfg.get("timeout_is_violation"):
            lines.append("VIOLATION property=%s replay=watchdog-shard-%d" % (prop, r["shard"]))
            rc = 1
        else:
            lines.append("INCONCLUSIVE property=%s watchdog fired on shard %d after %.0fs" % (prop, r["shard"], r["wall_s"]))
            rc = rc or 2

    # reach obligations
    missing = [k for k in cfg.get("must_observe", []) if events.get(k, 0) == 0]
    missing += ["note:" + k for k in cfg.get("must_note", []) if notes.get(k, 0) == 0]
    nev = sum(events.values())
    if nev == 0:
        lines.append("INCONCLUSIVE property=%s the deciding monitor observed nothing" % prop)
        rc = rc or 2
    elif missing:
        lines.append("INCONCLUSIVE property=%s reach obligations not met: %s" % (prop, ", ".join(missing)))
        rc = rc or 2

    ev = {
        "property_id": prop, "tier": tier, "seed": seed, "level": "exploration",
        "coverage": {
            "evaluations": int(nev),
            "distinct_nontrivial": len(classes),
            "rule": cfg.get("rule", ""),
            "samples": samples[:6] or [{"note": "no sample recorded"}],
            "events_by_operation": dict(sorted(events.items())),
            "inconclusive_by_reason": dict(sorted(inconcl.items())),
            "known_findings_seen": dict(known_seen),
            "unlisted_violation_mechanisms": dict(unknown),
            "reach_repo_functions_entered": len(reach),
            "reach_top": dict(reach.most_common(25)),
            "reach_functions": dict(sorted(reach.items())),
            "notes": dict(sorted(notes.items())),
            "extra": extra,
            "shards": len(results), "worker_crashes": len(crashes), "watchdog_expired": len(timeouts),
            "sanitizer": {"build": "asan+ubsan" if cfg["asan"] else "none",
                          "report_blocks": sum(len(r["san_reports"]) for r in results)},
            "tree": repo_root(),
            "exhaustive": False,
            "exhaustive_subspaces": extra.get("exhaustive_subspace", []),
        },
        "assumptions": cfg.get("assumptions", []),
        "wall_s": round(wall, 2),
        "violations": int(sum(n for _, n in unknown) + (nviol - sum(mech_counts.values()))),
    }
    if write:
        os.makedirs(os.path.join(VERIF_ROOT, "evidence"), exist_ok=True)
        with open(os.path.join(VERIF_ROOT, "evidence", prop + ".json"), "w") as f:
            json.dump(ev, f, indent=1, sort_keys=False)
    for l in lines:
        print(l)
    print("%s tier=%s seed=%d: %d evaluations, %d distinct classes, %d inconclusive, %d known-finding hits, "
          "%d unlisted violations, %.1fs -> %s" % (
              prop, tier, seed, nev, len(classes), sum(inconcl.values()), sum(known_seen.values()),
              sum(n for _, n in unknown), wall, {0: "held on what was observed", 1: "VIOLATED", 2: "INCONCLUSIVE"}[rc]))
    return rc


if __name__ == "__main__":
    sys.exit(main())
