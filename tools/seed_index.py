#!/usr/bin/env python3
"""Regenerate seeded/INDEX.md from seeded/*/meta.json."""
import glob
import json
import os

ROOT = os.path.dirname(os.path.dirname(os.path.abspath(__file__)))
rows = []
for m in sorted(glob.glob(os.path.join(ROOT, "seeded", "*", "meta.json"))):
    d = json.load(open(m))
    tag = os.path.basename(os.path.dirname(m))
    notes = d.get("needs_to_manifest", "")
    first = " ".join(l.strip("#-* ").strip() for l in notes.splitlines() if l.strip())[:260]
    files = (d.get("files_changed") or [""])[0]
    caught = ", ".join("%s (%s)" % (p, "; ".join(str(x) for x in d["checks"][p].get("mechanisms", [])[:3]) or "violation") for p in d.get("caught_by", [])) or "**not caught**"
    rows.append("| %s | %s | %s | %s | %s |" % (tag, d["property"], files.strip(), first.replace("|", "/"), caught))
with open(os.path.join(ROOT, "seeded", "INDEX.md"), "w") as f:
    f.write("# Property-breaking changes used to validate the monitors\n\n"
            "Each directory holds `patch.diff` (applies to /repo HEAD named in meta.json), `demo.py` (exit 0 on the clean tree, 1 with the patch;\n"
            "run as `PYTHONPATH=<tree> /venv/bin/python demo.py`), the author's `notes.md` and `meta.json` (what was run, results).\n"
            "All were written by fresh sub-agents that saw only the property text and a scratch worktree; each was confirmed by\n"
            "`tools/seed.py` (patch applies, repository suite unchanged 222/222, demo passes clean and fails patched) before being kept.\n"
            "To re-run: `tools/mutant.sh seeded/<tag>/patch.diff <PROP>`.\n\n"
            "| change | property | files | what / what it needs to manifest (author's notes, truncated) | caught by (quick tier, mechanism keys) |\n|---|---|---|---|---|\n")
    f.write("\n".join(rows) + "\n")
print("%d seeded changes indexed" % len(rows))
