#!/usr/bin/env python3
"""Regenerate seeded/INDEX.md and the seeded-change table inside DESIGN.md (between the TABLE markers)."""
import os
import subprocess
import sys

ROOT = os.path.dirname(os.path.dirname(os.path.abspath(__file__)))
subprocess.run([sys.executable, os.path.join(ROOT, "tools", "seed_index.py")], check=True)
tab = subprocess.run([sys.executable, os.path.join(ROOT, "tools", "design_table.py")], check=True, capture_output=True, text=True).stdout
p = os.path.join(ROOT, "DESIGN.md")
s = open(p).read()
a, b = s.index("<!-- TABLE:BEGIN -->"), s.index("<!-- TABLE:END -->")
s = s[:a] + "<!-- TABLE:BEGIN -->\n" + tab + s[b:]
open(p, "w").write(s)
print("DESIGN.md table updated")
