#!/usr/bin/env python3
"""tools/show.py <PROP> [tier]: compact view of the last run's evidence and replays."""
import glob, json, sys
prop = sys.argv[1]; tier = sys.argv[2] if len(sys.argv) > 2 else "quick"
ev = json.load(open('/verif/evidence/%s.json' % prop)); c = ev['coverage']
print('unlisted:', c['unlisted_violation_mechanisms']); print('known:', c['known_findings_seen'])
print('events:', {k: v for k, v in c['events_by_operation'].items()} if len(c['events_by_operation']) < 40 else len(c['events_by_operation']))
print('inconclusive:', c['inconclusive_by_reason']); print('notes:', c['notes'])
crash = 0
for p in sorted(glob.glob('/verif/replays/%s-%s-*.json' % (prop, tier)))[:int(sys.argv[3]) if len(sys.argv) > 3 else 12]:
    r = json.load(open(p)); d = r.get('detail') or {}
    if r.get('monitor_crash') or r.get('mechanism') == 'worker-died':
        crash += 1
        if crash > 1: continue
        print(p.split('/')[-1], (r.get('monitor_crash') or '')[-1500:], (r.get('stderr') or '')[-800:]); continue
    print(p.split('/')[-1], r['mechanism'], r.get('count_this_run'), r.get('class'))
    print('    ', json.dumps(d)[:700])
