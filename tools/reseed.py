#!/venv/bin/python
"""tools/reseed.py <tag> [PROP ...]
Re-run checks (quick tier; default: the targeted property's) against a kept seeded change after the
checks were strengthened: applies seeded/<tag>/patch.diff on a scratch worktree of /repo's HEAD,
runs the checks with VERIF_REPO, records the outcome in meta.json under "recheck" and adds the checks
that now exit 1 to "caught_by". Never touches /repo's working tree."""
import json
import os
import subprocess
import sys
import tempfile
import time

ROOT = os.path.dirname(os.path.dirname(os.path.abspath(__file__)))


def sh(cmd, **kw):
    return subprocess.run(cmd, shell=isinstance(cmd, str), capture_output=True, text=True, **kw)


def main():
    tag = sys.argv[1]
    d = os.path.join(ROOT, "seeded", tag)
    meta = json.load(open(os.path.join(d, "meta.json")))
    props = sys.argv[2:] or [meta["property"]]
    w = tempfile.mkdtemp(prefix="ws-reseed-", dir="/tmp")
    os.rmdir(w)
    try:
        assert sh("git -C /repo worktree add --detach -f %s HEAD -q" % w).returncode == 0
        a = sh("git -C %s apply %s" % (w, os.path.join(d, "patch.diff")))
        if a.returncode != 0:
            print("RESEED %s patch does not apply: %s" % (tag, a.stderr[-300:]))
            return 3
        head = sh("git -C /repo rev-parse --short HEAD").stdout.strip()
        vhead = sh("git -C %s rev-parse --short HEAD" % ROOT).stdout.strip()
        rec = meta.setdefault("recheck", {})
        for p in props:
            t0 = time.time()
            c = sh([os.path.join(ROOT, "check"), p, "--tier", os.environ.get("TIER", "quick"), "--no-evidence"],
                   env=dict(os.environ, VERIF_REPO=w), cwd=ROOT, timeout=7200)
            lines = [l for l in c.stdout.strip().splitlines() if not l.startswith("KNOWN-FINDING")]
            last = (lines or ["?"])[-1]
            mechs = []
            rd = os.path.join(ROOT, "replays")
            for f in sorted(os.listdir(rd)) if os.path.isdir(rd) else []:
                if f.startswith("%s-%s-" % (p, os.environ.get("TIER", "quick"))):
                    try:
                        mechs.append(json.load(open(os.path.join(rd, f))).get("mechanism"))
                    except Exception:
                        pass
            rec[p] = {"exit": c.returncode, "summary": last[-220:], "mechanisms": sorted(set(str(m) for m in mechs))[:8] if c.returncode == 1 else [],
                      "wall_s": round(time.time() - t0), "repo_head": head, "verif_head": vhead}
            print("RESEED %s %s exit=%s %s %s" % (tag, p, c.returncode, rec[p]["mechanisms"], last[-160:]))
            if c.returncode == 1 and p not in meta.get("caught_by", []):
                meta.setdefault("caught_by", []).append(p)
                meta.setdefault("checks", {})[p] = rec[p]
        with open(os.path.join(d, "meta.json"), "w") as f:
            json.dump(meta, f, indent=1)
        return 0
    finally:
        sh("git -C /repo worktree remove --force %s" % w)


if __name__ == "__main__":
    sys.exit(main())
