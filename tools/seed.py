#!/venv/bin/python
"""tools/seed.py <PROP> <n> [--also C03,C20] [--all-if-missed]
Validate a property-breaking change delivered under /tmp/mut/<PROP>/out/<n>/ (patch.diff, demo.py,
notes.md) on a scratch worktree of /repo's HEAD, run the checks against it, and keep it as
/verif/seeded/<PROP>-<n>/ with meta.json. Never touches /repo's working tree."""
import json
import os
import shutil
import subprocess
import sys
import tempfile
import time

ROOT = os.path.dirname(os.path.dirname(os.path.abspath(__file__)))
sys.path.insert(0, ROOT)
PY = "/venv/bin/python"


def sh(cmd, **kw):
    return subprocess.run(cmd, shell=isinstance(cmd, str), capture_output=True, text=True, **kw)


def main():
    prop, n = sys.argv[1], sys.argv[2]
    also = []
    if "--also" in sys.argv:
        also = sys.argv[sys.argv.index("--also") + 1].split(",")
    rnd = "out"
    if "--round" in sys.argv:
        rnd = sys.argv[sys.argv.index("--round") + 1]
    tag = "%s-%s" % (prop, n) if rnd == "out" else "%s-%s-%s" % (prop, rnd.replace("out", "r"), n)
    src = "/tmp/mut/%s/%s/%s" % (prop, rnd, n)
    patch = os.path.join(src, "patch.diff")
    demo = os.path.join(src, "demo.py")
    assert os.path.exists(patch) and os.path.exists(demo), "missing patch.diff / demo.py in " + src
    w = tempfile.mkdtemp(prefix="ws-seed-", dir="/tmp")
    os.rmdir(w)
    meta = {"property": prop, "n": int(n), "repo_head": sh("git -C /repo rev-parse --short HEAD").stdout.strip(), "ran": []}
    try:
        assert sh("git -C /repo worktree add --detach -f %s HEAD -q" % w).returncode == 0
        from vf import build
        # clean tree: demo must pass
        os.environ["VERIF_REPO"] = w
        so = build.build_ext("plain")
        shutil.copy(so, os.path.join(w, "wavespectra/partition/specpart.cpython-312-x86_64-linux-gnu.so"))
        env = dict(os.environ, PYTHONPATH=w, MPLBACKEND="Agg")
        r0 = sh([PY, demo], env=env, cwd=src, timeout=900)
        meta["demo_clean"] = {"rc": r0.returncode, "tail": (r0.stdout + r0.stderr)[-300:]}
        a = sh("git -C %s apply %s" % (w, patch))
        meta["applies"] = a.returncode == 0
        if not meta["applies"]:
            meta["apply_error"] = a.stderr[-500:]
            print(json.dumps(meta, indent=1))
            return 3
        meta["files_changed"] = sh("git -C %s diff --stat" % w).stdout.strip().splitlines()[-1:]
        so = build.build_ext("plain")          # rebuilt from the patched C sources if they changed
        shutil.copy(so, os.path.join(w, "wavespectra/partition/specpart.cpython-312-x86_64-linux-gnu.so"))
        r1 = sh([PY, demo], env=env, cwd=src, timeout=900)
        meta["demo_patched"] = {"rc": r1.returncode, "tail": (r1.stdout + r1.stderr)[-400:]}
        b = sh([PY, os.path.join(ROOT, "tools/baseline.py"), "--tree", w], timeout=1800)
        meta["suite_with_patch"] = b.stdout.strip().splitlines()[:6]
        meta["suite_ok"] = b.returncode == 0
        meta["ran"].append("tools/baseline.py --tree <scratch> ; demo.py clean/patched")
        props = [prop] + [p for p in also if p != prop]
        caught = {}
        for p in props:
            t0 = time.time()
            c = sh([os.path.join(ROOT, "check"), p, "--tier", "quick", "--no-evidence"], env=dict(os.environ, VERIF_REPO=w), cwd=ROOT, timeout=3600)
            last = (c.stdout.strip().splitlines() or ["?"])[-1]
            mechs = []
            for f in sorted(os.listdir(os.path.join(ROOT, "replays"))):
                if f.startswith("%s-quick-" % p):
                    try:
                        mechs.append(json.load(open(os.path.join(ROOT, "replays", f))).get("mechanism"))
                    except Exception:
                        pass
            caught[p] = {"exit": c.returncode, "summary": last[-220:], "mechanisms": sorted(set(str(m) for m in mechs))[:8], "wall_s": round(time.time() - t0)}
            meta["ran"].append("VERIF_REPO=<scratch> ./check %s --tier quick" % p)
        if "--all-if-missed" in sys.argv and not any(v["exit"] == 1 for v in caught.values()):
            from vf.registry import REG
            for p in sorted(REG):
                if p in caught:
                    continue
                c = sh([os.path.join(ROOT, "check"), p, "--tier", "quick", "--no-evidence"], env=dict(os.environ, VERIF_REPO=w), cwd=ROOT, timeout=3600)
                last = (c.stdout.strip().splitlines() or ["?"])[-1]
                caught[p] = {"exit": c.returncode, "summary": last[-220:]}
                meta["ran"].append("VERIF_REPO=<scratch> ./check %s --tier quick" % p)
                if c.returncode == 1:
                    break
        meta["checks"] = caught
        meta["caught_by"] = [p for p, v in caught.items() if v["exit"] == 1]
        valid = meta["demo_clean"]["rc"] == 0 and meta["demo_patched"]["rc"] != 0 and meta["suite_ok"]
        meta["confirmed"] = bool(valid)
        notes = open(os.path.join(src, "notes.md")).read() if os.path.exists(os.path.join(src, "notes.md")) else ""
        meta["needs_to_manifest"] = notes[:1500]
        if valid:
            dst = os.path.join(ROOT, "seeded", tag)
            os.makedirs(dst, exist_ok=True)
            shutil.copy(patch, os.path.join(dst, "patch.diff"))
            shutil.copy(demo, os.path.join(dst, "demo.py"))
            if notes:
                shutil.copy(os.path.join(src, "notes.md"), os.path.join(dst, "notes.md"))
            with open(os.path.join(dst, "meta.json"), "w") as f:
                json.dump(meta, f, indent=1)
        print("SEED %s applies=%s suite_ok=%s demo_clean_rc=%s demo_patched_rc=%s confirmed=%s caught_by=%s" % (
            tag, meta["applies"], meta["suite_ok"], meta["demo_clean"]["rc"], meta["demo_patched"]["rc"], meta["confirmed"], meta["caught_by"]))
        for p, v in caught.items():
            print("   %s exit=%s %s %s" % (p, v["exit"], v.get("mechanisms", ""), v["summary"][-150:]))
        return 0
    finally:
        sh("git -C /repo worktree remove --force %s" % w)
        os.environ.pop("VERIF_REPO", None)


if __name__ == "__main__":
    sys.exit(main())
