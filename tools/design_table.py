#!/usr/bin/env python3
"""Print the DESIGN.md table 'which check catches which seeded change' from seeded/*/meta.json."""
import glob
import json
import os
import re

ROOT = os.path.dirname(os.path.dirname(os.path.abspath(__file__)))
# changes the target check did not catch when first run, and what was done about it
REMEDY = {
    "C01-1": "history defect by nature (memoised df): decided by C18",
    "C06-2": "C06 now compares the two accessors again after in-place edits of the Dataset",
    "C12-2": "in-place scaling of the caller's arrays: decided by C17",
    "C15-2": "C15 identities now run with non-default sigma/alpha and with/without rescaling",
    "C17-2": "C17 readers now also get datasets that already carry wavespectra names",
    "C01-r2-2": "C01 grids now stored from any starting direction (seam between the first two labels)",
    "C06-r2-1": "new C06 fits stream (single vs batched, reversed order, perturbation)",
    "C08-r2-1": "C08 sources with float32 / integer coordinates",
    "C14-r2-1": "C14 call histories on one Dataset object with in-place coordinate replacement",
    "C14-r2-2": "C14 float32 station coordinates and off-lattice queries",
    "C16-r2-1": "C16 sectors 1-3 bins short of the circle",
    "C16-r2-2": "C16 label conventions d..360, -180..180, one turn up",
    "C18-r2-1": "C18 runs under numpy's default error state so warning-only operations really warn",
    "C11-r2-2": "labels outside [0,360) are outside C11's 'wavespectra convention' scope: decided by C13 (SWAN NDIR styles)",
    "C20-r2-1": "tracking defect: decided by C19",
    "C20-r2-2": "chunked-input defect (core dimension not rechunked): decided by C07",
    "C02-r3-1": "memoised oned(): history defect, decided by C18",
    "C03-r3-1": "C03 spectra rescaled by exact powers of two down to 2^-30",
    "C04-r3-1": "C04 hands the same values over as Fortran / strided / float64 arrays",
    "C05-r3-1": "hp01 added to the op table; new C05 partition_rotations stream",
    "C05-r3-2": "whole-bin rotation angles in the op table; seam-first storage in C08",
    "C06-r3-2": "forcing arrays in another dimension order than the spectra, equal leading sizes",
    "C07-r3-1": "C07 datasets mix peakless (calm, decaying) positions with ordinary ones",
    "C07-r3-2": "forcing arrays lacking one of the spectra's dimensions",
    "C08-r3-1": "C08 source grids with one or two bins missing",
    "C09-r3-1": "C09 PTM5 with interpolate=False",
    "C10-r3-1": "C10 relabelling without wrapping; dp must be one of the labels",
    "C12-r3-1": "C12 converts a sibling dataset first (same shape and end points)",
    "C12-r3-2": "C12 NDBC moments in hundredths incl. exactly 0.00 / 1.00",
    "C13-r3-2": "C13 (and C11) rewrite files in place under a reused path",
    "C14-r3-1": "C14 passes queries as arrays and checks query / dataset coordinates after the call",
    "C16-r3-2": "C16 smooths again after an in-place edit of the same object",
    "C17-r3-2": "bbox dictionaries with open sides left out or None",
    "C18-r3-1": "GIL release: decided by C07",
    "C18-r3-2": "selection rewrites the caller's lon: decided by C14 (inputs_left_for_next_selection) and C17",
    "C20-r3-1": "GIL release: decided by C07",
    "C20-r3-2": "C20 bands holding no grid frequency, one-sided cutoffs",
    "C01-r4-1": "C01 millimetre sea states either side of the 1 mm mask",
    "C01-r4-2": "C01 uss_x/uss_y along any axis (theta)",
    "C02-r4-1": "C02 energy levels down to 2^-40",
    "C03-r4-1": "dispersion accuracy: decided by C01 (0.1 % dispersion monitor) and C09",
    "C08-r4-1": "C08 targets holding the source's direction set in another order",
    "C08-r4-2": "C08 whole-bin rotations on grids that are not exactly representable",
    "C09-r4-2": "memoised band: C18 histories now repeat the observed call before an edit (memo stream)",
    "C11-r4-1": "C11 11.25 / 5.625 degree and offset direction grids",
    "C13-r4-2": "C13 workers run in four different time zones",
    "C15-r4-2": "C15 construction on rolled / descending direction coordinates",
    "C19-r4-2": "C19 light airs (wind below 1 m/s)",
    "C04-r4-1": "GIL release: decided by C07",
    "C06-r4-1": "label map returned as a view of the static buffer: needs threads, decided by C07 (and by C04, which keeps maps across calls)",
    "C06-r4-2": "state of the native routine carried between grids of equal bin count: decided by C18 (and C04)",
    "C07-r4-2": "C07 mixes the backing: dask forcing with numpy spectra and vice versa",
    "C10-r4-1": "NOT CAUGHT by design: only manifests on exact ties between direction bins, which leave 'the peak direction' undefined (see text)",
    "C12-r4-1": "C12 ERA5 bin-number labels 1-based / 0-based / absent",
    "C12-r4-2": "C12 north written as 2 pi, float32 radian coordinates (exposed defect 32)",
    "C14-r4-1": "C14 queries down to 1e-6 degree from a station",
    "C16-r4-2": "C16 dask-backed inputs chunked along freq / dir",
    "C17-r4-2": "C17 writers get slightly negative densities",
    "C18-r4-1": "in-place cast of the caller's coordinate: decided by C17 (and C05)",
    "C18-r4-2": "in-place scaling of the caller's buffer: decided by C17",
    "C20-r4-1": "C20 requires a finite hmax on a one-record time axis",
    "C20-r4-2": "C20 drives the fits, and energy levels up to 1e4",
    "C01-r5-1": "new C01 stream on grids whose first bin is 0 Hz",
    "C03-r5-1": "C03 oracle decides the exactly-zero wind-sea fraction instead of calling it a boundary case",
    "C03-r5-2": "GIL release: decided by C07",
    "C04-r5-2": "C04 energy levels down to ranges of 1e-8",
    "C06-r5-2": "C06 rolled storage (seam first) in the accessor comparison",
    "C07-r5-1": "new C07 fits stream on slowly varying sea states",
    "C07-r5-2": "C07 stress partitions distinct grids of equal shape with hp01",
    "C09-r5-1": "C09 single-direction boxes (exposed defect 33)",
    "C09-r5-2": "C09 calm records among the others",
    "C10-r5-1": "dpspr(mom=2) added to the op table",
    "C10-r5-2": "records seven decades apart inside one array: decided by C06 (single vs batched) and C02",
    "C11-r5-1": "C11 grids held in other dimension orders",
    "C11-r5-2": "C11 positions compared exactly for formats that store doubles",
    "C12-r5-2": "C12 native variables in permuted dimension order, square grids",
    "C14-r5-1": "C14 decides zero tolerance with exact hits",
    "C15-r5-1": "C15 very narrow beams on 360/720-bin grids",
    "C16-r5-1": "C16 inputs in any dimension order",
    "C17-r5-1": "C17 failing writes",
    "C17-r5-2": "new C17 tracking stream with calm records",
    "C18-r5-1": "C18 reconstruction in histories and as observed operation",
    "C18-r5-2": "Dataset accessor adds arguments of its own: decided by C06 on reader-like datasets (wind/depth variables present)",
    "C06-r6-1": "C06 smooths stacks with an all-missing first record and holes in another",
    "C06-r6-2": "new C06 stream: ptm1_track partitions must equal ptm1, also across gaps in the wind record",
    "C07-r6-1": "new C07 selection stream on datasets whose variables are chunked differently",
    "C07-r6-2": "flat-topped peaks: decided by C02 (designed flat tops, strict-peak rule) on in-memory data",
    "C09-r6-1": "limits written back into the caller's box dictionaries: decided by C17",
    "C11-r6-1": "C11 default clip=True on spectra lying inside the retained half plane",
    "C12-r6-1": "C12 dask-backed native datasets",
    "C12-r6-2": "C12 near-geometric frequency grids (rounded / drifting ratio)",
    "C13-r6-1": "C13 WW3-station output steps that are not whole minutes",
    "C13-r6-2": "gridded SWAN files are C11's subject (write/read of lat x lon grids): decided by C11",
    "C18-r6-1": "C18 history: stats() with limits failing on an unknown statistic",
    "C18-r6-2": "new C18 probe: a Partition object reused after a rule-based split",
    "C01-r7-1": "swe of a one-bin / empty spectrum is a documented degenerate case for C01 (inconclusive there): decided by C20's NaN allowance table",
    "C01-r7-2": "C01 momd with any theta and orders 0-3",
    "C02-r7-1": "C02 spectra stored rolled, descending or in WW3 order",
    "C03-r7-1": "NOT CAUGHT: needs a missing (NaN) wind or depth, which is outside the property's 'all wind speed/direction/depth' inputs; not driven",
    "C05-r7-2": "statistic of a direction-limited split on a rotated storage order: decided by C09 (stats with limits == stats of the explicit split, rolled storage)",
    "C08-r7-1": "C13 now reads TRIAXYS files with a magnetic variation as well: same axes, every record keeps the file's wave height",
    "C08-r7-2": "memoised df: history defect, decided by C18",
    "C14-r7-1": "C14 dask-backed station datasets",
    "C14-r7-2": "C14 stations with a missing record (idw must propagate it)",
    "C15-r7-1": "NOT CAUGHT: needs an undefined (NaN) parameter of the shape that is not selected at that position; not driven",
}
rows = []
for m in sorted(glob.glob(os.path.join(ROOT, "seeded", "*", "meta.json"))):
    d = json.load(open(m))
    tag = os.path.basename(os.path.dirname(m))
    notes = d.get("needs_to_manifest", "") or ""
    title = next((l.strip("# ").strip() for l in notes.splitlines() if l.strip()), "")
    title = re.sub(r"^(C\d\d\s*)?(/|,)?\s*(round|set|mutant|mutation|change)[^-–:]*[-–:]\s*", "", title, flags=re.I)[:150]
    caught = ", ".join(d.get("caught_by", [])) or "—"
    rows.append((tag, d["property"], title.replace("|", "/"), caught, REMEDY.get(tag, "")))
print("| change | what (author's title) | caught by | strengthening it prompted |")
print("|---|---|---|---|")
for tag, prop, title, caught, rem in rows:
    print("| %s | %s | %s | %s |" % (tag, title, caught, rem))
print()
n = len(rows)
tgt = sum(1 for r in rows if r[1] in r[3].split(", "))
print("%d changes; %d caught by the check of the property they were written against, %d by another check only, %d by none." % (
    n, tgt, sum(1 for r in rows if r[3] != "—" and r[1] not in r[3].split(", ")), sum(1 for r in rows if r[3] == "—")))
