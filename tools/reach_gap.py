#!/usr/bin/env python3
"""List functions of /repo/wavespectra that no check entered (union of coverage.reach_functions over
evidence/*.json) - a guide for widening workloads, not a verdict."""
import ast, glob, json, os, sys
ROOT = os.path.dirname(os.path.dirname(os.path.abspath(__file__)))
repo = os.environ.get("VERIF_REPO", "/repo")
reached = {}
for f in sorted(glob.glob(os.path.join(ROOT, "evidence", "C*.json"))):
    e = json.load(open(f))
    for k, n in e["coverage"].get("reach_functions", {}).items():
        reached.setdefault(k, []).append(e["property_id"])
allf = []
base = os.path.join(repo, "wavespectra")
for dp, dn, fn in os.walk(base):
    for x in fn:
        if x.endswith(".py"):
            p = os.path.join(dp, x)
            rel = os.path.relpath(p, base)
            try:
                t = ast.parse(open(p).read())
            except Exception:
                continue
            for n in ast.walk(t):
                if isinstance(n, (ast.FunctionDef, ast.AsyncFunctionDef)):
                    allf.append(rel + ":" + n.name)
miss = sorted(set(allf) - set(reached))
print("functions defined: %d, entered by some check: %d, never entered: %d" % (len(set(allf)), len(set(allf) & set(reached)), len(miss)))
cur = None
for m in miss:
    f, n = m.split(":")
    if f != cur:
        print("\n" + f + ":", end=" ")
        cur = f
    print(n, end=" ")
print()
