#!/bin/bash
# usage: tools/mutant.sh <patch.diff | "-R <commit>"> <PROP> [<PROP>...]
# Applies a patch (or reverts a commit) on a scratch worktree of /repo's HEAD outside /repo and
# /verif, runs the given checks against it (VERIF_REPO), prints their last lines, removes it.
set -u
W=$(mktemp -d /tmp/ws-mut-XXXXXX)
rmdir "$W"
git -C /repo worktree add -f --detach "$W" HEAD -q || exit 3
if [ "$1" = "-R" ]; then
  shift; C=$1
  git -C "$W" revert --no-commit "$C" >/dev/null 2>&1 || { echo "revert failed"; git -C /repo worktree remove --force "$W"; exit 3; }
else
  git -C "$W" apply "$1" || { echo "patch does not apply"; git -C /repo worktree remove --force "$W"; exit 3; }
fi
shift
rc=0
for P in "$@"; do
  VERIF_REPO="$W" /verif/check "$P" --tier "${TIER:-quick}" --no-evidence | grep -v '^KNOWN-FINDING' | tail -${LINES_OUT:-3}
  r=${PIPESTATUS[0]}
  echo "   -> $P exit $r"
  [ "$r" != "0" ] && rc=1
done
git -C /repo worktree remove --force "$W"
exit $rc
