#!/usr/bin/env python3
"""Run every registered check for several seeds (and optionally the thorough tier); print a table.
usage: tools/sweep.py [--tier quick|thorough] [--seeds 1,2,3] [--props C01,C02]"""
import argparse
import os
import subprocess
import sys
import time

ROOT = os.path.dirname(os.path.dirname(os.path.abspath(__file__)))
sys.path.insert(0, ROOT)
from vf.registry import REG  # noqa

ap = argparse.ArgumentParser()
ap.add_argument("--tier", default="quick")
ap.add_argument("--seeds", default="1,2,3")
ap.add_argument("--props", default=",".join(sorted(REG)))
a = ap.parse_args()
bad = 0
for prop in a.props.split(","):
    for seed in a.seeds.split(","):
        env = dict(os.environ, VERIF_SEED=seed)
        t0 = time.time()
        p = subprocess.run([os.path.join(ROOT, "check"), prop, "--tier", a.tier, "--no-evidence"], env=env, capture_output=True, text=True, cwd=ROOT)
        last = (p.stdout.strip().splitlines() or ["?"])[-1]
        print("%s seed=%s rc=%d %.0fs | %s" % (prop, seed, p.returncode, time.time() - t0, last), flush=True)
        if p.returncode != 0:
            bad += 1
            print(p.stdout[-3000:], p.stderr[-2000:], flush=True)
            os.makedirs(os.path.join(ROOT, "sweep_replays"), exist_ok=True)
            subprocess.run("cp %s/replays/%s-%s-*.json %s/sweep_replays/ 2>/dev/null" % (ROOT, prop, a.tier, ROOT), shell=True)
print("sweep done: %d failing runs" % bad)
sys.exit(1 if bad else 0)
