#!/venv/bin/python
"""tools/arg_census.py [PROP ...]  - diagnostic, not a check.
Runs the quick tier of the given checks (default: all) with VERIF_ARGCENSUS set: every entry into a repository function
records a coarse token of each argument value (None / bool / number / short string / type, dask-backed or not). Prints the
parameters that only ever received ONE kind of value across all workloads - option values and input kinds the generators
never vary - as a guide for widening. Output: census.json (git-ignored) and a table on stdout."""
import glob, json, os, subprocess, sys, tempfile, shutil
ROOT = os.path.dirname(os.path.dirname(os.path.abspath(__file__)))
sys.path.insert(0, ROOT)
from vf.registry import REG
props = sys.argv[1:] or sorted(REG)
d = tempfile.mkdtemp(prefix="vf-census-")
try:
    for p in props:
        r = subprocess.run([os.path.join(ROOT, "check"), p, "--tier", "quick", "--no-evidence"], env=dict(os.environ, VERIF_ARGCENSUS=d), capture_output=True, text=True, cwd=ROOT)
        print(p, "rc=%d" % r.returncode, file=sys.stderr)
    tot = {}
    for f in glob.glob(os.path.join(d, "census-*.json")):
        for k, v in json.load(open(f)).items():
            tot.setdefault(k, set()).update(v)
    json.dump({k: sorted(v) for k, v in sorted(tot.items())}, open(os.path.join(ROOT, "census.json"), "w"), indent=0)
    for k in sorted(tot):
        if len(tot[k]) == 1:
            print("%-70s %s" % (k, next(iter(tot[k]))))
finally:
    shutil.rmtree(d, ignore_errors=True)
