#!/usr/bin/env python3
"""Run the repository's suite with the guard OFF and compare with BASELINE.json stable_pass."""
import json
import os
import subprocess
import sys
import tempfile
import xml.etree.ElementTree as ET

tree = "/repo"
if "--tree" in sys.argv:
    i = sys.argv.index("--tree")
    tree = sys.argv[i + 1]
    del sys.argv[i:i + 2]
base = json.load(open("/root/.vp/BASELINE.json"))
want = set(base["stable_pass"])
fd, path = tempfile.mkstemp(suffix=".xml")
os.close(fd)
env = {k: v for k, v in os.environ.items() if k != "WAVESPECTRA_VERIF"}
if tree != "/repo":
    env["PYTHONPATH"] = tree
cmd = ["/venv/bin/python", "-m", "pytest", "-ra", "-q", "-p", "no:cacheprovider", "--timeout=900",
       "--continue-on-collection-errors", "--junitxml=" + path, "-n", "8"] + sys.argv[1:]
p = subprocess.run(cmd, cwd=tree, env=env, capture_output=True, text=True)
got = set()
for tc in ET.parse(path).getroot().iter("testcase"):
    if not any(ch.tag in ("failure", "error", "skipped") for ch in tc):
        got.add(tc.get("classname") + "::" + tc.get("name"))
os.remove(path)
missing = sorted(want - got)
print("stable_pass: %d, passing now: %d of them, missing: %d" % (len(want), len(want & got), len(missing)))
for m in missing:
    print("  MISSING", m)
sys.exit(1 if missing else 0)
