#!/usr/bin/env python3
"""Regenerate MANIFEST.json from vf/registry.py (keeps it schema-valid at all times)."""
import json
import os
import sys

ROOT = os.path.dirname(os.path.dirname(os.path.abspath(__file__)))
sys.path.insert(0, ROOT)
from vf.registry import REG, NOT_APPLICABLE, HOOK_COMMITS  # noqa

checks = []
for pid in sorted(REG):
    c = REG[pid]
    if not c.get("claimed", True):
        continue
    checks.append({
        "property_id": pid,
        "quick_cmd": "./check %s --tier quick" % pid,
        "thorough_cmd": "./check %s --tier thorough" % pid,
        "evidence_file": "/verif/evidence/%s.json" % pid,
        "replay_cmd_template": "./check %s --replay {path}" % pid,
        "engine": "vf",
        "level_claimed": {"category": "exploration", "text": c["level_text"], "design_ref": "DESIGN.md §3 " + pid},
        "level_note": c["level_note"],
        "technique": c["technique"],
    })
ids = [json.loads(l)["id"] for l in open(os.path.join(ROOT, "properties.jsonl"))]
na = list(NOT_APPLICABLE)
for pid in ids:
    if pid not in [c["property_id"] for c in checks] and pid not in [n["property_id"] for n in na]:
        na.append({"property_id": pid, "reason": "not claimed yet: its monitor is still under construction (DESIGN.md §7); the technique applies"})
man = {
    "version": 1,
    "setup_cmd": "/venv/bin/python -m vf.setup",
    "hooks": {
        "guard": "WAVESPECTRA_VERIF",
        "enable": "workers are started with WAVESPECTRA_VERIF=1; all monitors are installed from outside the repository (wrappers, sys.monitoring, sanitizer builds of the unmodified C sources); no guarded source change exists in /repo",
        "baseline_off_cmd": "cd /repo && /venv/bin/python -m pytest -ra -q -p no:cacheprovider --timeout=900 --continue-on-collection-errors",
        "source_commits": HOOK_COMMITS,
        "add_only": True,
    },
    "engines": [{"name": "vf", "path": "/verif/vf", "serves_properties": sorted(p for p in REG if REG[p].get("claimed", True)),
                 "kind_free_text": "runtime monitoring: sharded workloads on the real code, boundary monitors, independent reference-model / metamorphic / invariant oracles, ASan+UBSan builds of the native watershed"}],
    "checks": checks,
    "not_applicable": na,
    "notes": "All checks: ./check <ID> --tier quick|thorough; VERIF_SEED seeds every random choice; exit 0 held / 1 VIOLATION / 2 INCONCLUSIVE (monitor observed nothing, watchdog, build failure). known_findings.json lists recorded defects by mechanism.",
}
with open(os.path.join(ROOT, "MANIFEST.json"), "w") as f:
    json.dump(man, f, indent=1)
print("wrote MANIFEST.json with %d checks" % len(checks))
